"""Canaries: property-breaking edits (which keep the repository's tests green) and harmless refactors, applied one at a
time to a scratch copy of the code under $TMPDIR; each must flip (resp. not flip) the named obligation.
`vcheck selftest [Cnn|all]`"""
import json, os, shutil, subprocess, sys, tempfile
from .core import VERIF

# (id, property, file, old, new, expect: substring of a VIOLATION obligation id, or None for harmless)
CANARIES = [
    ('c05-stop-draining', 'C05', 'mindsdb_sql/parser/dialects/mindsdb/parser.py',
     "tokens=self.used_tokens.copy() + list(self.tokens),", "tokens=self.used_tokens.copy(),", 'C05.err.mindsdb'),
    ('c05-return-token', 'C05', 'mindsdb_sql/parser/dialects/mindsdb/parser.py',
     "        # don't raise exception\n        return\n", "        # don't raise exception\n        return next(iter(self.tokens), None)\n", 'C05.err.mindsdb'),
    ('c05-parse-none-ok', 'C05', 'mindsdb_sql/__init__.py',
     "    if ast is None:\n\n        eh", "    if ast is None and False:\n\n        eh", 'C05.api.parse_sql'),
    ('c05-error-production', 'C05', 'mindsdb_sql/parser/dialects/mindsdb/parser.py',
     "    @_('DROP KNOWLEDGE_BASE if_exists_or_empty identifier')", "    @_('DROP KNOWLEDGE_BASE if_exists_or_empty identifier', 'error select')", 'C05.tab.noerror.mindsdb'),
    ('c05-harmless-rename', 'C05', 'mindsdb_sql/parser/dialects/mindsdb/parser.py',
     "        self.error_info = dict(\n            tokens=self.used_tokens.copy() + list(self.tokens),",
     "        rest_of_input = list(self.tokens)\n        self.error_info = dict(\n            tokens=self.used_tokens.copy() + rest_of_input,", None),
    ('c03-swap-levels', 'C03', 'mindsdb_sql/parser/dialects/mindsdb/parser.py',
     "        ('left', PLUS, MINUS),\n        ('left', STAR, DIVIDE, TYPECAST, MODULO),", "        ('left', STAR, DIVIDE, TYPECAST, MODULO),\n        ('left', PLUS, MINUS),", 'C03.prec.mindsdb'),
    ('c03-drop-parens', 'C03', 'mindsdb_sql/parser/dialects/mindsdb/parser.py',
     "        if isinstance(p.expr, ASTNode):\n            p.expr.parentheses = True\n        return p.expr", "        return p.expr", 'C03.paren.mindsdb'),
    ('c03-right-assoc-minus', 'C03', 'mindsdb_sql/parser/parser.py',
     "        ('left', PLUS, MINUS),", "        ('right', PLUS, MINUS),", 'C03.prec.sqlite'),
    ('c13-skip-having', 'C13', 'mindsdb_sql/planner/utils.py',
     "        if node.having is not None:\n            node_out = query_traversal(node.having, callback, parent_query=node)\n            if node_out is not None:\n                node.having = node_out\n",
     "", 'C13.visit.Select.having'),
    ('c13-wrong-flag', 'C13', 'mindsdb_sql/planner/utils.py',
     "node_out = query_traversal(node.table, callback, is_table=True, parent_query=node)\n            if node_out is not None:\n                node.table = node_out\n\n        if node.values",
     "node_out = query_traversal(node.table, callback, parent_query=node)\n            if node_out is not None:\n                node.table = node_out\n\n        if node.values", 'C13.flags.Insert.table'),
    ('c13-replace-wrong-slot', 'C13', 'mindsdb_sql/planner/utils.py',
     "            if node_out is not None:\n                node.having = node_out", "            if node_out is not None:\n                node.where = node_out", 'C13.repl.Select.having'),
    ('c13-drop-replaced-arg', 'C13', 'mindsdb_sql/planner/utils.py',
     "            node_out = query_traversal(arg, callback, parent_query=parent_query) or arg\n            array.append(node_out)",
     "            node_out = query_traversal(arg, callback, parent_query=parent_query)\n            array.append(arg)", 'C13.repl.'),
    ('c13-harmless-rename', 'C13', 'mindsdb_sql/planner/utils.py',
     "        array = []\n        for arg in node.args:\n            node_out = query_traversal(arg, callback, parent_query=parent_query) or arg\n            array.append(node_out)\n        node.args = array",
     "        new_args = []\n        for a in node.args:\n            replaced = query_traversal(a, callback, parent_query=parent_query)\n            new_args.append(replaced or a)\n        node.args = new_args", None),
    ('c12-pop-last', 'C12', 'mindsdb_sql/planner/utils.py', "value = params.pop(0)", "value = params.pop()", 'C12.fill'),
    ('c12-no-copy', 'C12', 'mindsdb_sql/planner/utils.py', "    params = copy.deepcopy(params)\n\n    def params_replace", "    def params_replace", 'C12.fill'),
    ('c12-count-le', 'C12', 'mindsdb_sql/planner/query_prepare.py', "if len(params) != len(stmt.params):", "if len(params) < len(stmt.params):", 'C12.count'),
    ('c12-collect-constants', 'C12', 'mindsdb_sql/planner/utils.py', "        if isinstance(node, ast.Parameter):\n            params.append(node)\n            return node",
     "        if isinstance(node, (ast.Parameter, ast.NullConstant)):\n            params.append(node)\n            return node", 'C12.collect'),
    ('c12-prepare-no-copy', 'C12', 'mindsdb_sql/planner/query_prepare.py', "        query = copy.deepcopy(query)\n\n        params = utils.get_query_params(query)", "        params = utils.get_query_params(query)", 'C12.prepare'),
    ('c18-drop-parentheses', 'C18', 'mindsdb_sql/parser/ast/select/identifier.py',
     "        identifier.alias = deepcopy(self.alias)\n        identifier.parentheses = self.parentheses\n        if hasattr(self, 'sub_select'):\n            identifier.sub_select = deepcopy(self.sub_select)\n        return identifier\n\n    def __deepcopy__",
     "        identifier.alias = deepcopy(self.alias)\n        if hasattr(self, 'sub_select'):\n            identifier.sub_select = deepcopy(self.sub_select)\n        return identifier\n\n    def __deepcopy__", 'C18.copy.Identifier.__copy__'),
    ('c18-share-subselect', 'C18', 'mindsdb_sql/parser/ast/select/identifier.py',
     "identifier.sub_select = deepcopy(self.sub_select)\n        return identifier\n", "identifier.sub_select = self.sub_select\n        return identifier\n", 'C18.copy.Identifier.__copy__.adhoc'),
    ('c18-new-adhoc-attr', 'C18', 'mindsdb_sql/planner/plan_join.py',
     "                node2.sub_select = node\n", "                node2.sub_select = node\n                node2.origin_tag = name\n", 'C18.copy.Identifier'),
    ('c18-plan-eq-none', 'C18', 'mindsdb_sql/planner/query_plan.py', "        #     return False\n        return True\n", "        #     return False\n", 'C18.plan.eq'),
    ('c18-eq-truthy', 'C18', 'mindsdb_sql/planner/steps.py', "                return False\n\n        return True\n\n    def __repr__", "                return False\n\n        return 1\n\n    def __repr__", 'C18.eq.refl.PlanStep'),
    ('c09-number-from-one', 'C09', 'mindsdb_sql/planner/query_plan.py', "step.step_num = len(self.steps)", "step.step_num = len(self.steps) + 1", 'C09.num.add_step'),
    ('c09-insert-front', 'C09', 'mindsdb_sql/planner/query_plan.py', "        self.steps.append(step)\n        return self.steps[-1]", "        self.steps.insert(0, step)\n        return step", 'C09.'),
    ('c09-result-off-by-one', 'C09', 'mindsdb_sql/planner/steps.py', "return Result(self.step_num)", "return Result(self.step_num + 1)", 'C09.result.numbered'),
    ('c09-foreign-steps-write', 'C09', 'mindsdb_sql/planner/query_planner.py', "        return self.plan.add_step(self.get_integration_select_step(select))",
     "        step = self.get_integration_select_step(select)\n        step.step_num = len(self.plan.steps)\n        self.plan.steps.append(step)\n        return step", 'C09.disc.'),
    ('c04-dquote-lower', 'C04', 'mindsdb_sql/parser/dialects/mindsdb/parser.py',
     "r'\\1\\2', p[0][1:-1])", "r'\\1\\2', p[0][1:-1]).lower()", 'C04.dec.mindsdb.DQUOTE_STRING'),
    ('c04-ident-lower', 'C04', 'mindsdb_sql/parser/ast/select/identifier.py', "parts = [x[0].strip('`') for x in match]", "parts = [x[0].strip('`').lower() for x in match]", 'C04.ident.dec'),
    ('c04-variable-strip-both', 'C04', 'mindsdb_sql/parser/dialects/mindsdb/parser.py',
     "        value = p.VARIABLE.lstrip('@')\n\n        if value[0] == '\"':\n            value = value.strip('\\\"')",
     "        value = p.VARIABLE.lstrip('@')\n\n        if value[0] == '\"':\n            value = value.strip('\\\"\\'')", 'C04.dec.mindsdb.VARIABLE'),
    ('c04-sqlite-strip-space', 'C04', 'mindsdb_sql/parser/parser.py', "        return p[0].strip('\\'')", "        return p[0].strip('\\' ')", 'C04.dec.sqlite.QUOTE_STRING'),
    ('c04-harmless-slice', 'C04', 'mindsdb_sql/parser/parser.py', "        return p[0].strip('\\'')", "        return p[0][1:-1]", None),
    ('c04-int-plus-one', 'C04', 'mindsdb_sql/parser/dialects/mindsdb/parser.py', "    def integer(self, p):\n        return int(p[0])", "    def integer(self, p):\n        return int(p[0]) + (1 if len(p[0]) > 18 else 0)", 'C04.int.mindsdb'),
    ('c04-nowrap-dollar', 'C04', 'mindsdb_sql/parser/ast/select/identifier.py', "re.compile(r'[a-zA-Z_][a-zA-Z_0-9]*')", "re.compile(r'[a-zA-Z_$][a-zA-Z_$0-9]*')", 'C04.ident.enc.mindsdb.bare'),
    ('c04-isidentifier', 'C04', 'mindsdb_sql/parser/ast/select/identifier.py', "not no_wrap_identifier_regex.fullmatch(part)", "not part.isidentifier()", 'C04.ident.enc.mindsdb.bare'),
    ('c04-reserved-underscore', 'C04', 'mindsdb_sql/parser/ast/select/identifier.py', "            if isinstance(pattern, str) and re.fullmatch(pattern, word, re.IGNORECASE):", "            if False:", 'C04.ident.enc.mindsdb.bare.PRIMARY_KEY'),
    ('c04-harmless-guard-rewrite', 'C04', 'mindsdb_sql/parser/ast/select/identifier.py', "not no_wrap_identifier_regex.fullmatch(part)", "not re.fullmatch('[a-zA-Z_][a-zA-Z_0-9]*', part)", None),
    ('c16-shift-off', 'C16', 'mindsdb_sql/parser/utils.py', "            shift = last_pos + 1", "            shift = last_pos", 'C16.tts.step.new-line'),
    ('c16-pad-off', 'C16', 'mindsdb_sql/parser/utils.py', "        line += ' '*(token.index - shift - len(line))", "        line += ' '*(token.index - shift - len(line) - 1)", 'C16.tts.step'),
    ('c16-no-last-line', 'C16', 'mindsdb_sql/parser/utils.py', "    # last line\n    content += line\n    return content", "    # last line\n    return content", 'C16.tts.exit'),
    ('c16-collect-drop-paren', 'C16', 'mindsdb_sql/parser/dialects/mindsdb/parser.py', "        return [p._slice[0]] + p[1] + [p._slice[2]]", "        return [p._slice[0]] + p[1]", 'C16.collect.LPAREN_raw_query_RPAREN'),
    ('c16-job-swap', 'C16', 'mindsdb_sql/parser/dialects/mindsdb/parser.py', "            query_str = tokens_to_string(p.raw_query0)\n            if_query_str = tokens_to_string(p.raw_query1)",
     "            query_str = tokens_to_string(p.raw_query1)\n            if_query_str = tokens_to_string(p.raw_query0)", 'C16.store.create_job'),
    ('c16-lexer-float-normalise', 'C16', 'mindsdb_sql/parser/dialects/mindsdb/lexer.py', "    def FLOAT(self, t):\n        return t", "    def FLOAT(self, t):\n        t.value = t.value.rstrip('0')\n        return t", 'C16.raw.FLOAT'),
    ('c16-token-left-out', 'C16', 'mindsdb_sql/parser/dialects/mindsdb/parser.py', "all_tokens_list.remove('LPAREN')", "all_tokens_list.remove('LPAREN')\nall_tokens_list.remove('MODULO')", 'C16.alltokens'),
    ('c07-no-doubling', 'C07', 'mindsdb_sql/render/sqlalchemy_render.py',
     "                return \"'{}'\".format(str(value).replace(\"'\", \"''\"))\n\n            return super(LiteralCompiler, self).render_literal_value(value, type_)\n\n    return str(LiteralCompiler(dialect, statement, compile_kwargs={'literal_binds': True}))\n\n\ndef render_ddl_query",
     "                return \"'{}'\".format(str(value))\n\n            return super(LiteralCompiler, self).render_literal_value(value, type_)\n\n    return str(LiteralCompiler(dialect, statement, compile_kwargs={'literal_binds': True}))\n\n\ndef render_ddl_query", 'C07.lit.dml.sqlite.squote'),
    ('c07-backslash-quote', 'C07', 'mindsdb_sql/render/sqlalchemy_render.py',
     "                return \"'{}'\".format(str(value).replace(\"'\", \"''\"))\n\n            return super(LiteralCompiler, self).render_literal_value(value, type_)\n\n    return str(LiteralCompiler(dialect, statement, compile_kwargs={'literal_binds': True}))\n\n\ndef render_ddl_query",
     "                return \"'{}'\".format(str(value).replace(\"'\", \"\\\\'\"))\n\n            return super(LiteralCompiler, self).render_literal_value(value, type_)\n\n    return str(LiteralCompiler(dialect, statement, compile_kwargs={'literal_binds': True}))\n\n\ndef render_ddl_query", 'C07.lit.dml.postgresql.squote'),
    ('c07-literal-lower', 'C07', 'mindsdb_sql/render/sqlalchemy_render.py', "            col = sa.literal(t.value)", "            col = sa.literal(t.value if not isinstance(t.value, str) else t.value.strip())", 'C07.route.constant'),
    ('c07-paramstyle', 'C07', 'mindsdb_sql/render/sqlalchemy_render.py', 'self.dialect = dialect(paramstyle="named")', 'self.dialect = dialect()', 'C07.route.paramstyle'),
    ('c01-drop-parens-wrapper', 'C01', 'mindsdb_sql/parser/ast/base.py', "        if self.parentheses:\n            return f'({some_str})'", "        if self.parentheses and not some_str.startswith('('):\n            return f'({some_str})'", 'C01.wrap.par1'),
    ('c01-alias-with-alias', 'C01', 'mindsdb_sql/parser/ast/base.py', "return f'{some_str} AS {self.alias.to_string(alias=False)}'", "return f'{some_str} AS {self.alias.to_string()}'", 'C01.wrap.'),
    ('c01-unreserve-word', 'C01', 'mindsdb_sql/parser/ast/select/identifier.py', "    'ORDER', 'BY', 'GROUP', 'PARTITION'\n}", "    'ORDER', 'BY', 'GROUP', 'PARTITION'\n}\nNOT_RESERVED = {'WINDOW', 'HAVING'}",  None),
    ('c01-skip-reserved-with-digits', 'C01', 'mindsdb_sql/parser/ast/select/identifier.py', "            if '_' not in word:", "            if word.startswith('H'):\n                continue\n            if '_' not in word:", 'C01.reserved.'),
    ('c01-between-lowercase-and', 'C01', 'mindsdb_sql/parser/ast/select/operation.py', "return f'{arg_strs[0]} BETWEEN {arg_strs[1]} AND {arg_strs[2]}'", "return f'{arg_strs[0]} BETWEEN {arg_strs[1]}, {arg_strs[2]}'", 'C01.'),
    ('c10-case-sensitive-again', 'C10', 'mindsdb_sql/planner/plan_join.py', "            if table.parts[0].lower() in self.planner.databases:\n                integration = table.parts.pop(0).lower()",
     "            if table.parts[0] in self.planner.databases:\n                integration = table.parts.pop(0)", 'C10.resolve.agree'),
    ('c10-resolve-keep-qualifier', 'C10', 'mindsdb_sql/planner/query_planner.py', "                database = parts.pop(0).lower()", "                database = parts[0].lower()", 'C10.resolve.spec'),
    ('c10-version-lost', 'C10', 'mindsdb_sql/planner/query_planner.py', "            version = name_parts[-1]\n            name_parts = name_parts[:-1]", "            name_parts = name_parts[:-1]", 'C10.model.lookup'),
    ('c10-strip-any-first', 'C10', 'mindsdb_sql/planner/query_planner.py', "            if len(node.parts) > 1 and node.parts[0].lower() == database:", "            if len(node.parts) > 1 and node.parts[0].lower() in self.databases:", 'C10.strip'),
    ('c10-dict-name-not-lowered', 'C10', 'mindsdb_sql/planner/query_planner.py', "                    integration_name = integration['name'].lower()", "                    integration_name = integration['name']", 'C10.init'),
    ('c17-catch-less', 'C17', 'mindsdb_sql/render/sqlalchemy_render.py', "        except Exception as e:\n            if not with_failback:\n                if isinstance(e, (SQLAlchemyError, NotImplementedError)):", "        except SQLAlchemyError as e:\n            if not with_failback:\n                if isinstance(e, (SQLAlchemyError, NotImplementedError)):", 'C17.fallback.NotImplementedError'),
    ('c17-fallback-swallow-off', 'C17', 'mindsdb_sql/render/sqlalchemy_render.py', "            if not with_failback:\n                if isinstance(e, (SQLAlchemyError, NotImplementedError)):", "            if not with_failback and isinstance(e, SQLAlchemyError):\n                if isinstance(e, (SQLAlchemyError, NotImplementedError)):", 'C17.fallback.NotImplementedError'),
    ('c17-harmless-new-valueerror', 'C17', 'mindsdb_sql/render/sqlalchemy_render.py', "            raise NotImplementedError('Only one table is supported')", "            raise ValueError('Only one table is supported')", None),
    ('c17-mutate-alias', 'C17', 'mindsdb_sql/render/sqlalchemy_render.py', "        if alias is None or len(alias.parts) == 0:\n            return None", "        if alias is None or len(alias.parts) == 0:\n            return None\n        alias.parentheses = False", 'C17.frame.get_alias'),
    ('c20-cache-parsers', 'C20', 'mindsdb_sql/__init__.py', "def get_lexer_parser(dialect):\n    if dialect == 'sqlite':",
     "_CACHE = {}\n\n\ndef get_lexer_parser(dialect):\n    if dialect in _CACHE:\n        return _CACHE[dialect]\n    _CACHE[dialect] = _get_lexer_parser(dialect)\n    return _CACHE[dialect]\n\n\ndef _get_lexer_parser(dialect):\n    if dialect == 'sqlite':", 'C20.'),
    ('c20-module-level-parser', 'C20', 'mindsdb_sql/__init__.py', "        lexer, parser = MindsDBLexer(), MindsDBParser()\n", "        lexer, parser = MindsDBLexer(), _shared_parser(MindsDBParser)\n",
     'C20.fresh.get_lexer_parser.mindsdb'),
    ('c20-global-counter', 'C20', 'mindsdb_sql/planner/query_planner.py', "class QueryPlanner:\n", "PLANNED = []\n\n\nclass QueryPlanner:\n    def _note(self, q):\n        PLANNED.append(q)\n", 'C20.globals'),
    ('c19-caret-off-by-one', 'C19', 'mindsdb_sql/__init__.py', "msgs.append('-' * (error_index + 1) + '^' * error_len)", "msgs.append('-' * error_index + '^' * error_len)", 'C19.caret.final'),
    ('c19-no-shift', 'C19', 'mindsdb_sql/__init__.py', "            if line_num == error_line_num:\n                error_index -= shift\n", "            if line_num == error_line_num:\n                pass\n", 'C19.caret.shift.error-line'),
    ('c19-truncate-line', 'C19', 'mindsdb_sql/__init__.py', "                line = line.ljust(token.index)\n", "                line = line.ljust(token.index - 1)\n", 'C19.caret.place'),
    ('c19-unvalidated', 'C19', 'mindsdb_sql/__init__.py', "                if self.query_is_valid(tokens2):\n                    suggestions.append(value)\n                    continue\n\n                # try to replace token",
     "                suggestions.append(value)\n                continue\n\n                # try to replace token", 'C19.validated'),
    ('c19-eof-two-carets', 'C19', 'mindsdb_sql/__init__.py', "            error_len = 1\n", "            error_len = 2\n", 'C19.caret.select.eof'),
    ('c15-window-boundary', 'C15', 'mindsdb_sql/planner/plan_join_ts.py', "preparation_time_filter_op = {'>': '<=', '>=': '<'}[time_filter.op]", "preparation_time_filter_op = {'>': '<', '>=': '<'}[time_filter.op]", 'C15.rows.gt'),
    ('c15-no-notnull', 'C15', 'mindsdb_sql/planner/plan_join_ts.py', "        preparation_where = add_order_not_null(preparation_where)\n", "", 'C15.rows.'),
    ('c15-between-inclusive', 'C15', 'mindsdb_sql/planner/plan_join_ts.py', "preparation_time_filter = BinaryOperation('<', args=[Identifier(predictor_time_column_name), between_from])", "preparation_time_filter = BinaryOperation('<=', args=[Identifier(predictor_time_column_name), between_from])", 'C15.rows.between'),
    ('c15-limit-pushed', 'C15', 'mindsdb_sql/planner/plan_join_ts.py', "                                          modifiers=query_modifiers,\n                                          order_by=order_by)\n\n            integration_selects = [integration_select_1, integration_select_2]\n        else:",
     "                                          modifiers=query_modifiers,\n                                          order_by=order_by, limit=query.limit)\n\n            integration_selects = [integration_select_1, integration_select_2]\n        else:", 'C15.rows.g'),
    ('c15-find-first-only', 'C15', 'mindsdb_sql/planner/ts_utils.py', "        if left and right:\n            raise PlanningException('Can provide only one filter by predictor order_by column, found two')\n", "", 'C15.find.and.leaf-leaf'),
    ('c15-allow-orderby', 'C15', 'mindsdb_sql/planner/plan_join_ts.py', "        if query.order_by:\n            raise PlanningException(", "        if query.order_by and False:\n            raise PlanningException(", 'C15.reject.order-by'),
    ('c08-limit-precedence-again', 'C08', 'mindsdb_sql/planner/plan_join.py', "if query_in.having is None and query_in.group_by is None and query_in.limit is not None:", "if query_in.having is None or query_in.group_by is None and query_in.limit is not None:", 'C08.limit.'),
    ('c08-outer-drops-having', 'C08', 'mindsdb_sql/planner/plan_join.py', "            query2.from_table = None\n            query2.using = None", "            query2.from_table = None\n            query2.having = None\n            query2.using = None", 'C08.outer.reapply'),
    ('c08-harmless-no-or-guard', 'C08', 'mindsdb_sql/planner/plan_join.py', "        if 'or' in self.query_context['binary_ops']:\n            # not use conditions\n            conditions = []", "        if False:\n            conditions = []", None),
    ('c08-harmless-descend-into-or', 'C08', 'mindsdb_sql/planner/plan_join.py', "            if isinstance(node, BinaryOperation) and node.op.lower() == 'and':\n                for arg in node.args:\n                    _check_conjuncts(arg)", "            if isinstance(node, BinaryOperation) and node.op.lower() in ('and', 'or'):\n                for arg in node.args:\n                    _check_conjuncts(arg)", None),
    ('c08-descend-into-not', 'C08', 'mindsdb_sql/planner/plan_join.py', "            elif isinstance(node, (BinaryOperation, BetweenOperation)):\n                self.check_node_condition(node)", "            elif isinstance(node, (BinaryOperation, BetweenOperation)):\n                self.check_node_condition(node)\n            elif isinstance(node, ast.UnaryOperation):\n                _check_conjuncts(node.args[0])", 'C08.filter.'),
    ('c14-target-as-arg', 'C14', 'mindsdb_sql/planner/plan_join.py', "                    if col_name.lower() == predict_target:\n                        # don't add predict target to parameters\n                        continue\n", "", 'C14.predictor.eq-target'),
    ('c14-keep-consumed', 'C14', 'mindsdb_sql/planner/plan_join.py', "                    # exclude condition\n                    el._orig_node.args = [Constant(0), Constant(0)]\n\n        # params for model", "\n        # params for model", 'C14.predictor.eq-const'),
    ('c14-params-case', 'C14', 'mindsdb_sql/planner/plan_join.py', "                    model_params[param.lower()] = value", "                    model_params[param] = value", 'C14.predictor.'),
    ('c14-wrong-dataframe', 'C14', 'mindsdb_sql/planner/plan_join.py', "        data_step = self.step_stack[-1]\n        row_dict = None", "        data_step = self.step_stack[0]\n        row_dict = None", 'C14.predictor.'),
    ('c14-attr-any-table', 'C14', 'mindsdb_sql/planner/plan_join.py', "        parts = tuple(map(str.lower, column.parts[:-1]))\n        if parts in self.tables_idx:\n            return self.tables_idx[parts]",
     "        parts = tuple(map(str.lower, column.parts[:-1]))\n        if parts in self.tables_idx:\n            return self.tables_idx[parts]\n        for k in self.tables_idx:\n            return self.tables_idx[k]", 'C14.attr.unknown-table'),
    ('c14-colmap-swapped', 'C14', 'mindsdb_sql/planner/plan_join.py', "                columns_map[arg1.parts[-1]] = arg2\n", "                columns_map[arg2.parts[-1]] = arg1\n", 'C14.colmap.model-left'),
    ('c11-push-with-udf', 'C11', 'mindsdb_sql/planner/query_planner.py', "                and len(query_info['user_functions']) == 0\n", "", 'C11.shape.user-function'),
    ('c11-alias-tables-too', 'C11', 'mindsdb_sql/planner/query_planner.py', "            if not is_table:\n                # add table name or alias for identifiers", "            if True:\n                # add table name or alias for identifiers", 'C11.edit.ident.table1'),
    ('c11-alias-in-joins', 'C11', 'mindsdb_sql/planner/query_planner.py', "                if isinstance(table, Join):\n                    # skip for join\n                    return\n", "", 'C11.edit.ident'),
    ('c11-no-rewrite', 'C11', 'mindsdb_sql/planner/query_planner.py', "                self.prepare_integration_select(int_name, query)\n\n                last_step = self.plan.add_step(FetchDataframeStep(integration=int_name, query=query))", "                last_step = self.plan.add_step(FetchDataframeStep(integration=int_name, query=query))", 'C11.shape.one-sql-integration'),
    ('c06-left-as-inner', 'C06', 'mindsdb_sql/render/sqlalchemy_render.py', "                        if join_type in ('LEFT JOIN', 'LEFT OUTER JOIN'):\n                            method = 'outerjoin'", "                        if join_type in ('LEFT OUTER JOIN',):\n                            method = 'outerjoin'", 'C06.join.LEFT_JOIN'),
    ('c06-desc-dropped', 'C06', 'mindsdb_sql/render/sqlalchemy_render.py', "                if f.direction.upper() == 'DESC':\n                    col0 = col0.desc()\n                elif", "                if f.direction.upper() == 'DESCENDING':\n                    col0 = col0.desc()\n                elif", 'C06.order.select.DESC'),
    ('c06-union-all-swapped', 'C06', 'mindsdb_sql/render/sqlalchemy_render.py', "            func = sa.union if from_table.unique else sa.union_all", "            func = sa.union_all if from_table.unique else sa.union", 'C06.setop.UNION'),
    ('c06-operator-table', 'C06', 'mindsdb_sql/render/sqlalchemy_render.py', '                ">=": "__ge__",\n                "<=": "__le__",', '                ">=": "__gt__",\n                "<=": "__le__",', 'C06.op.GEQ'),
    ('c06-nulls-swapped', 'C06', 'mindsdb_sql/render/sqlalchemy_render.py', "                if f.nulls.upper() == 'NULLS FIRST':\n                    col0 = sa.nullsfirst(col0)", "                if f.nulls.upper() == 'NULLS FIRST':\n                    col0 = sa.nullslast(col0)", 'C06.order.select'),
    ('c02-none-ok', 'C02', 'mindsdb_sql/__init__.py', "    if ast is None:\n\n        eh", "    if ast is None and dialect != 'mindsdb':\n\n        eh", 'C02.api.parse_sql'),
    ('c02-new-keyerror', 'C02', 'mindsdb_sql/parser/dialects/mindsdb/parser.py', "        params = getattr(p, 'kw_parameter_list', {})\n        from_query = getattr(p, 'select', None)", "        params = getattr(p, 'kw_parameter_list', {})\n        owner = params['owner'] if hasattr(p, 'kw_parameter_list') else None\n        from_query = getattr(p, 'select', None)", 'C02.'),
    ('c02-limit-negative', 'C02', 'mindsdb_sql/parser/dialects/mindsdb/parser.py', "    @_('TRUE')\n    def constant(self, p):\n        return Constant(value=True)", "    @_('TRUE')\n    def constant(self, p):\n        return Constant(value=[True][len(p.TRUE) - 4])", None),
    ('c02-float-of-text', 'C02', 'mindsdb_sql/parser/dialects/mindsdb/parser.py', "    @_('FALSE')\n    def constant(self, p):\n        return Constant(value=False)", "    @_('FALSE')\n    def constant(self, p):\n        return Constant(value=bool(int(p.FALSE)))", 'C02.action.mindsdb.constant'),
    # ---- round 4 obligations: breaking variants different from the seeded ones, and harmless rewrites of the same code
    ('c18-plan-eq-shorter-other', 'C18', 'mindsdb_sql/planner/query_plan.py', "        if len(self.steps) != len(other.steps):", "        if len(self.steps) > len(other.steps):", 'C18.eq.sym.QueryPlan'),
    ('c18-harmless-eq-all', 'C18', 'mindsdb_sql/planner/query_plan.py',
     "        for step, other_step in zip(self.steps, other.steps):\n            if step != other_step:\n                return False\n",
     "        for pair in zip(self.steps, other.steps):\n            if pair[0] != pair[1]:\n                return False\n", None),
    ('c06-delete-where-dropped', 'C06', 'mindsdb_sql/render/sqlalchemy_render.py', "            stmt = stmt.where(self.to_expression(ast_query.where))\n\n        return stmt\n\n    def prepare_delete", "            stmt.where(self.to_expression(ast_query.where))\n\n        return stmt\n\n    def prepare_delete", 'C06.dml.update'),
    ('c06-window-partition-first-only', 'C06', 'mindsdb_sql/render/sqlalchemy_render.py', "                    for i in t.partition\n                ]", "                    for i in t.partition[:1]\n                ]", 'C06.list.partition.window'),
    ('c06-harmless-window-order-comprehension', 'C06', 'mindsdb_sql/render/sqlalchemy_render.py',
     "                    if f.direction == 'DESC':\n                        col0 = col0.desc()\n                    if f.nulls.upper() == 'NULLS FIRST':",
     "                    if f.direction.upper() == 'DESC':\n                        col0 = col0.desc()\n                    if f.nulls.upper() == 'NULLS FIRST':", None),
    ('c08-offset-copied-not-moved', 'C08', 'mindsdb_sql/planner/plan_join.py', "                query2.offset = query_in.offset\n                query_in.offset = None\n", "                query2.offset = query_in.offset\n", 'C08.limit.transfer'),
    ('c08-harmless-offset-tuple-assign', 'C08', 'mindsdb_sql/planner/plan_join.py', "                query2.offset = query_in.offset\n                query_in.offset = None\n", "                query2.offset, query_in.offset = query_in.offset, None\n", None),
    ('c08-cte-any-namespace', 'C08', 'mindsdb_sql/planner/query_planner.py', "            if integration_name == self.default_namespace and table_name in self.cte_results:", "            if table_name in self.cte_results:", 'C08.cte.lookup'),
    ('c08-on-clause-or-conjuncts', 'C08', 'mindsdb_sql/planner/plan_join.py',
     "            if isinstance(node, BinaryOperation) and node.op.lower() == 'and':\n                for arg in node.args:\n                    _check_conjuncts(arg)\n            else:\n                _check_conditions(node)",
     "            if (isinstance(node, BinaryOperation) and node.op.lower() == 'and') or type(node).__name__ == 'UnaryOperation':\n                for arg in node.args:\n                    _check_conjuncts(arg)\n            else:\n                _check_conditions(node)", 'C08.filter.on-path'),
    ('c10-list-project-case', 'C10', 'mindsdb_sql/planner/query_planner.py', "                self.predictor_info[idx] = predictor\n                _projects.add(integration_name.lower())", "                self.predictor_info[idx] = predictor\n                _projects.add(integration_name)", 'C10.init.predictors'),
    ('c10-harmless-copy-method', 'C10', 'mindsdb_sql/planner/query_planner.py', "            info = dict(info)\n", "            info = {**info}\n", None),
    ('c11-cte-name-with-alias', 'C11', 'mindsdb_sql/planner/query_planner.py', "                if '.'.join(item.parts) not in cte_names", "                if item.to_string() not in cte_names", 'C11.info.cte-references'),
    ('c11-harmless-cte-last-part', 'C11', 'mindsdb_sql/planner/query_planner.py', "                if '.'.join(item.parts) not in cte_names", "                if not (len(item.parts) == 1 and item.parts[0] in cte_names)", None),
    ('c02-variable-star', 'C02', 'mindsdb_sql/parser/dialects/mindsdb/lexer.py', "    @_(r'@[a-zA-Z_.$]+',", "    @_(r'@[a-zA-Z_.$]*',", 'C02.action.mindsdb.variable'),
    ('c02-harmless-variable-slice', 'C02', 'mindsdb_sql/parser/dialects/mindsdb/parser.py', "        value = p.VARIABLE.lstrip('@')\n", "        value = p.VARIABLE[1:]\n", None),
    ('c02-from-table-index-plus-one', 'C02', 'mindsdb_sql/parser/dialects/mindsdb/parser.py', "                query.targets[i].alias = Identifier.from_path_str(col)", "                query.targets[i + 1].alias = Identifier.from_path_str(col)", 'C02.action.mindsdb.from_table'),
    ('c16-strip-leading', 'C16', 'mindsdb_sql/__init__.py', "    sql = re.sub(r'[\\s;]+$', '', sql)", "    sql = re.sub(r'^[\\s;]+|[\\s;]+$', '', sql)", None),
    ('c16-strip-inner-semicolons', 'C16', 'mindsdb_sql/__init__.py', "    sql = re.sub(r'[\\s;]+$', '', sql)", "    sql = re.sub(r';+\\s*$', '', sql, flags=re.M)", 'C16.bounded.preprocess'),
    ('c20-get-predictor-writes-entry', 'C20', 'mindsdb_sql/planner/query_planner.py', "            info = dict(info)\n", "", 'C20.catalog.frame.get_predictor'),
    ('c20-init-writes-entry', 'C20', 'mindsdb_sql/planner/query_planner.py', "                    integration_name = self.predictor_namespace\n                    predictor = dict(predictor, integration_name=integration_name)\n                idx =", "                    integration_name = self.predictor_namespace\n                    predictor['integration_name'] = integration_name\n                idx =", 'C20.catalog.frame.init.list'),
    ('c17-handler-narrow', 'C17', 'mindsdb_sql/render/sqlalchemy_render.py', "        except Exception as e:\n            if not with_failback:\n                if isinstance(e, (SQLAlchemyError, NotImplementedError)):", "        except (SQLAlchemyError, NotImplementedError, KeyError) as e:\n            if not with_failback:\n                if isinstance(e, (SQLAlchemyError, NotImplementedError)):", 'C17.fallback.internal'),
    ('c17-harmless-handler-raise-from', 'C17', 'mindsdb_sql/render/sqlalchemy_render.py', "                raise NotImplementedError(f'Unable to render query: {type(e).__name__}: {e}') from e", "                raise NotImplementedError('Unable to render query: ' + repr(e)) from e", None),
    ('c07-datetime-unquoted', 'C07', 'mindsdb_sql/parser/ast/select/constant.py', "        elif isinstance(self.value, (dt.date, dt.datetime, dt.timedelta)):", "        elif isinstance(self.value, (dt.date, dt.timedelta)) and not isinstance(self.value, dt.datetime):", 'C07.bounded'),
    ('c14-using-alias-kept', 'C14', 'mindsdb_sql/planner/plan_join.py', "                        new_param = '.'.join(param.split('.')[1:])", "                        new_param = param", 'C14.predictor'),
    ('c13-fill-from-end', 'C13', 'mindsdb_sql/planner/utils.py', "value = params.pop(0)", "value = params.pop(-1)", 'C13.consumer.fill'),
    ('c13-cte-entry-replaced', 'C13', 'mindsdb_sql/planner/utils.py', "                    cte.query = node_out", "                    node.cte[node.cte.index(cte)] = node_out", 'C13.bounded.Select'),
    ('c13-delete-table-skipped', 'C13', 'mindsdb_sql/planner/utils.py', "    elif isinstance(node, ast.Delete):\n        if node.table is not None:", "    elif isinstance(node, ast.Delete):\n        if node.table is not None and False:", 'C13.visit.Delete.table'),
    ('c12-placeholder-alias-dropped', 'C12', 'mindsdb_sql/planner/utils.py', "return ast.Constant(value, alias=node.alias, parentheses=node.parentheses)", "return ast.Constant(value, parentheses=node.parentheses)", 'C12.fill'),
    ('c17-harmless-hook-valueerror', 'C17', 'mindsdb_sql/render/sqlalchemy_render.py', "@compiles(INTERVAL)", "@compiles(INTERVAL, 'oracle')\ndef _compile_interval_oracle(element, compiler, **kw):\n    value, unit = element.info.split(' ', maxsplit=1)\n    return f\"INTERVAL '{value}' {unit.upper()}\"\n\n\n@compiles(INTERVAL)", None),
    ('c01-raw-query-newline-dropped', 'C01', 'mindsdb_sql/parser/utils.py', "            shift = last_pos + 1", "            shift = last_pos + 2", 'C01.prod.mindsdb.raw_query'),
    # ---- rounds 7 / 8: canaries for the obligations added there
    ('c03-not-in-unranked', 'C03', 'mindsdb_sql/parser/parser.py', "GEQ, IN, NOT, BETWEEN, IS, IS_NOT, LIKE),  # NOT: look-ahead of 'expr NOT IN expr'", "GEQ, IN, BETWEEN, IS, IS_NOT, LIKE),", 'C03.prec.sqlite.binary_AND_NOT'),
    ('c19-eof-row-unvalidated', 'C19', 'mindsdb_sql/__init__.py', "                    if self.is_next_token(self.tokens + [token], token):\n                        suggestions.append(value)",
     "                    suggestions.append(value)", 'C19.eof.viable.mindsdb'),
    ('c05-parse-gets-list', 'C05', 'mindsdb_sql/__init__.py', "        ast = self.parser.parse(iter(tokens))\n        return ast is not None\n", "        ast = self.parser.parse(list(tokens))\n        return ast is not None\n", 'C05.drv.pre.query_is_valid'),
    ('c05-harmless-parse-gets-generator', 'C05', 'mindsdb_sql/__init__.py', "        ast = self.parser.parse(iter(tokens))\n        return ast is not None\n", "        ast = self.parser.parse(t for t in tokens)\n        return ast is not None\n", None),
    ('c04-id-not-closed', 'C04', 'mindsdb_sql/parser/lexer.py', "[a-zA-Z_$0-9]*[a-zA-Z_$]+[a-zA-Z_$0-9]*", "\\w*[a-zA-Z_$]+\\w*", 'C04.lex.id.closed.sqlite'),
    ('c04-pair-alternative-dropped', 'C04', 'mindsdb_sql/parser/dialects/mindsdb/parser.py', """        return re.sub(r\"\"\"(\\\\\\\\)|\\\\(['"])\"\"\", r'\\1\\2', p[0][1:-1])""",
     """        return re.sub(r\"\"\"\\\\(['"])\"\"\", r'\\1', p[0][1:-1])""", 'C04.dec.mindsdb.DQUOTE_STRING.backslash.modulo-pairs'),
    ('c06-case-alias-dropped', 'C06', 'mindsdb_sql/render/sqlalchemy_render.py', "            col = self.prepare_case(t)\n            if t.alias:\n                alias = self.get_alias(t.alias)\n                col = col.label(alias)\n",
     "            col = self.prepare_case(t)\n", 'C06.alias.case'),
    ('c06-not-is-noop', 'C06', 'mindsdb_sql/render/sqlalchemy_render.py', "            if method == '__invert__' and getattr(arg, 'negate', None) is not None and arg.negate is getattr(arg, 'operator', None):",
     "            if False:", 'C06.bounded.exec.pred.NOT-paren-is-null'),
    ('c08-cte-setdefault', 'C08', 'mindsdb_sql/planner/query_planner.py', "            self.cte_results[name] = step.result\n", "            self.cte_results.setdefault(name, step.result)\n", 'C08.cte.bind.name-already-bound'),
    ('c08-cte-branch-shares-select', 'C08', 'mindsdb_sql/planner/query_planner.py', "                select = copy.deepcopy(select)\n                select.from_table = None\n", "                select.from_table = None\n", 'C08.cte.lookup.bare-cte-name'),
    ('c18-class-level-list', 'C18', 'mindsdb_sql/parser/ast/select/common_table_expression.py', "class CommonTableExpression(ASTNode):\n", "class CommonTableExpression(ASTNode):\n    columns = []\n", 'C18.copy.class-level'),
    ('c20-null-singleton', 'C20', 'mindsdb_sql/parser/dialects/mindsdb/parser.py', "all_tokens_list.remove('LPAREN')\n", "all_tokens_list.remove('LPAREN')\nNULL_CONSTANT = NullConstant()\n", 'C20.globals.shared-node'),
]


def run_one(c, tier='quick'):
    cid, prop, rel, old, new, expect = c
    repo_root = os.environ.get('REPO_ROOT', '/repo')
    tmp = tempfile.mkdtemp(prefix='vselftest_')
    try:
        for d in ('mindsdb_sql', 'sly', 'tests'):
            shutil.copytree(os.path.join(repo_root, d), os.path.join(tmp, d), ignore=shutil.ignore_patterns('__pycache__'))
        p = os.path.join(tmp, rel)
        s = open(p).read()
        if old not in s:
            return cid, 'STALE', 'anchor text not found (source changed): canary needs review'
        s = s.replace(old, new, 1)
        if cid == 'c20-module-level-parser':
            s += "\n\n_SHARED = {}\n\n\ndef _shared_parser(cls):\n    if cls not in _SHARED:\n        _SHARED[cls] = cls()\n    return _SHARED[cls]\n"
        open(p, 'w').write(s)
        env = dict(os.environ, REPO_ROOT=tmp, PYTHONDONTWRITEBYTECODE='1', VERIF_SELFTEST='1', VERIF_OUT=os.path.join(tmp, 'out'))
        r = subprocess.run([os.path.join(VERIF, '.venv/bin/python'), '-m', 'vlib.cli', prop, '--tier', tier], cwd=VERIF, env=env,
                           capture_output=True, text=True, timeout=3000)
        out = r.stdout + r.stderr
        viol = [l for l in out.splitlines() if l.startswith('VIOLATION')]
        if expect is None:
            ok = r.returncode == 0 and not viol
            return cid, 'OK' if ok else 'FALSE-ALARM', f'rc={r.returncode} {viol[:2]}' + ('' if ok else out[-600:])
        hit = [l for l in viol if expect.replace('/', '_') in l.replace('/', '_')]
        ok = r.returncode == 1 and bool(hit)
        return cid, 'OK' if ok else 'MISSED', f'rc={r.returncode} {len(viol)} violation line(s); ' + (hit[0][:160] if hit else out[-800:])
    finally:
        shutil.rmtree(tmp, ignore_errors=True)


def main(which, tier):
    which = (which or 'all').upper()
    sel = [c for c in CANARIES if which == 'ALL' or c[1] == which or c[0].upper() == which]
    from concurrent.futures import ThreadPoolExecutor
    bad = 0
    with ThreadPoolExecutor(max_workers=8) as ex:
        for cid, st, info in ex.map(lambda c: run_one(c, tier), sel):
            print(f'{st:12s} {cid}: {info}')
            bad += st not in ('OK',)
    # evidence of the selftest is informational; evidence files of the properties were written by scratch runs -> restore by rerun
    return 1 if bad else 0
