"""Mechanical extraction of straight-line string functions from the real source into transducers (engine fst).

Supported subset (anything else -> FstError -> UNDECIDED): assignments to names / attribute paths, if/elif/else whose tests
are `X[0] == 'c'`, `isinstance(...)`-free returns; expressions: a tracked value, string constants, .replace(c1, c2),
.strip/.lstrip/.rstrip(c), str(X), f-strings / + / '{}'.format with exactly one tracked value and constants."""
import ast
from .fst import Fst, Dfa, FstError, regex_dfa


class Val:
    """string value as a function of the input string: transducer T (or a constant)"""

    def __init__(self, T=None, const=None):
        self.T, self.const = T, const


def path_of(e):
    if isinstance(e, ast.Name):
        return e.id
    if isinstance(e, ast.Attribute):
        b = path_of(e.value)
        return None if b is None else f'{b}.{e.attr}'
    if isinstance(e, ast.Subscript) and isinstance(e.slice, ast.Constant):
        b = path_of(e.value)
        return None if b is None else f'{b}[{e.slice.value!r}]'
    return None


class Extractor:
    def __init__(self, alphabet, env):
        self.A = alphabet
        self.env = dict(env)          # path -> Val
        self.ret = None               # list of (domain dfa or None, Val)
        self.returns = []

    def const_of(self, e):
        if isinstance(e, ast.Constant) and isinstance(e.value, str):
            return e.value
        return None

    def eval(self, e):
        p = path_of(e)
        if p is not None and p in self.env:
            return self.env[p]
        c = self.const_of(e)
        if c is not None:
            return Val(const=c)
        if isinstance(e, ast.Call):
            f = e.func
            if isinstance(f, ast.Name) and f.id == 'str' and len(e.args) == 1:
                return self.eval(e.args[0])
            if isinstance(f, ast.Attribute):
                base = self.eval(f.value)
                args = [self.const_of(a) for a in e.args]
                if f.attr == 'format' and base.const is not None and len(e.args) == 1 and base.const.count('{}') == 1:
                    pre, suf = base.const.split('{}')
                    return self.wrap(self.eval(e.args[0]), pre, suf)
                if base.T is None:
                    if base.const is not None and all(a is not None for a in args):
                        return Val(const=getattr(base.const, f.attr)(*args))
                    raise FstError(f'method {f.attr} on untracked value')
                if any(a is None for a in args):
                    raise FstError(f'non-constant argument of {f.attr}')
                if f.attr == 'replace' and len(args) == 2:
                    return Val(base.T.then(Fst.replace(self.A, args[0], args[1])))
                if f.attr == 'strip' and len(args) == 1:
                    return Val(base.T.then(Fst.lstrip(self.A, args[0])).then(Fst.rstrip(self.A, args[0])))
                if f.attr == 'lstrip' and len(args) == 1:
                    return Val(base.T.then(Fst.lstrip(self.A, args[0])))
                if f.attr == 'rstrip' and len(args) == 1:
                    return Val(base.T.then(Fst.rstrip(self.A, args[0])))
                raise FstError(f'string method {f.attr}')
            raise FstError('call')
        if isinstance(e, ast.Subscript) and isinstance(e.slice, ast.Slice) and e.slice.step is None:
            x = self.eval(e.value)
            if x.T is None:
                raise FstError('slice of untracked value')

            def bound(b):
                if b is None:
                    return None
                if isinstance(b, ast.Constant) and isinstance(b.value, int):
                    return b.value
                if isinstance(b, ast.UnaryOp) and isinstance(b.op, ast.USub) and isinstance(b.operand, ast.Constant):
                    return -b.operand.value
                raise FstError('slice bound')
            lo, hi = bound(e.slice.lower), bound(e.slice.upper)
            T = x.T
            if lo not in (None, 0, 1) or hi not in (None, -1):
                raise FstError(f'slice [{lo}:{hi}]')
            if lo == 1:
                T = T.then(Fst.drop_first(self.A))
            if hi == -1:
                T = T.then(Fst.drop_last(self.A))
            return Val(T)
        if isinstance(e, ast.JoinedStr):
            tracked = None
            pre, suf = '', ''
            for v in e.values:
                if isinstance(v, ast.Constant):
                    if tracked is None:
                        pre += v.value
                    else:
                        suf += v.value
                else:
                    if v.format_spec is not None or v.conversion not in (-1, 115):
                        raise FstError('format spec')
                    x = self.eval(v.value)
                    if x.const is not None:
                        if tracked is None:
                            pre += x.const
                        else:
                            suf += x.const
                    else:
                        if tracked is not None:
                            raise FstError('two tracked values in one f-string')
                        tracked = x
            if tracked is None:
                return Val(const=pre + suf)
            return self.wrap(tracked, pre, suf)
        if isinstance(e, ast.BinOp) and isinstance(e.op, ast.Add):
            a, b = self.eval(e.left), self.eval(e.right)
            if a.const is not None and b.const is not None:
                return Val(const=a.const + b.const)
            if a.const is not None:
                return self.wrap(b, a.const, '')
            if b.const is not None:
                return self.wrap(a, '', b.const)
            raise FstError('concatenation of two tracked values')
        if isinstance(e, ast.IfExp):
            raise FstError('conditional expression')
        raise FstError(f'expression {type(e).__name__}: {ast.unparse(e)[:60]}')

    def wrap(self, x, pre, suf):
        if x.T is None:
            raise FstError('wrap of untracked')
        return Val(x.T.then(Fst.wrap(self.A, pre, suf)))

    def test_domain(self, test):
        """input-domain DFA on which `test` is true, for tests X[0] == 'c' (X tracked)"""
        if isinstance(test, ast.Compare) and len(test.ops) == 1 and isinstance(test.ops[0], ast.Eq):
            l, r = test.left, test.comparators[0]
            c = self.const_of(r)
            if isinstance(l, ast.Subscript) and isinstance(l.slice, ast.Constant) and l.slice.value == 0 and c is not None and len(c) == 1:
                x = self.eval(l.value)
                if x.T is None:
                    raise FstError('test on untracked value')
                starts = Dfa.literal(self.A, c).concat(Dfa.star_any(self.A))
                return x.T.then(Fst.restrict(self.A, starts)).domain()
        raise FstError(f'test {ast.unparse(test)[:60]}')

    def restricted(self, dom):
        ex = Extractor(self.A, {})
        for k, v in self.env.items():
            ex.env[k] = Val(v.T.on_domain(dom)) if v.T is not None else v
        ex.paths = self.paths
        return ex

    paths = None

    def run(self, body, dom=None):
        """executes statements along every path; each terminal path is recorded in self.paths as (domain, returned Val|None, env)"""
        if self.paths is None:
            self.paths = []
        for i, st in enumerate(body):
            if isinstance(st, ast.Expr) and isinstance(st.value, ast.Constant):
                continue
            if isinstance(st, ast.Assign) and len(st.targets) == 1:
                p = path_of(st.targets[0])
                if p is None:
                    raise FstError('assignment target')
                self.env[p] = self.eval(st.value)
            elif isinstance(st, ast.Return):
                v = None
                if st.value is not None:
                    try:
                        v = self.eval(st.value)
                    except FstError:
                        v = None          # returns an untracked object (e.g. the token): callers read the environment
                self.paths.append((dom, v, dict(self.env)))
                return
            elif isinstance(st, ast.If):
                dtrue = self.test_domain(st.test)
                if dom is not None:
                    dtrue = dtrue.intersect(dom)
                dfalse = dtrue.complement() if dom is None else dom.minus(dtrue)
                rest = body[i + 1:]
                a = self.restricted(dtrue)
                a.run(list(st.body) + rest, dtrue)
                b = self.restricted(dfalse)
                b.run(list(st.orelse) + rest, dfalse)
                return
            elif isinstance(st, ast.Pass):
                continue
            else:
                raise FstError(f'statement {type(st).__name__}')
        self.paths.append((dom, None, dict(self.env)))


def function_transducer(funcdef, alphabet, input_paths, result='return', result_path=None):
    """transducer computed by `funcdef` from the string found at every path in input_paths (all bound to the same input).
    result='return': the returned expression; result='path': the final value of result_path (e.g. 't.value')."""
    ident = Fst.identity(alphabet)
    ex = Extractor(alphabet, {p: Val(ident) for p in input_paths})
    ex.run(funcdef.body)
    T = None
    for d, v, env in ex.paths:
        if d is not None and d.is_empty():
            continue
        if result == 'path':
            v = env.get(result_path)
        if v is None or v.T is None:
            raise FstError('a path does not produce a tracked string')
        t = v.T if d is None else v.T.on_domain(d)
        T = t if T is None else T.union(t)
    if T is None:
        raise FstError('no path')
    return T
