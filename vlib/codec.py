"""Mechanical extraction of straight-line string functions from the real source into transducers (engine fst).

Supported subset (anything else -> FstError -> UNDECIDED): assignments to names / attribute paths, if/elif/else whose tests
are `X[0] == 'c'` or decided by the caller's static assumptions (e.g. isinstance(self.value, str) under "the value is a str"), early
returns; expressions: a tracked value, constants (also tuples / module-level literal constants), .replace(c1, c2),
.strip/.lstrip/.rstrip(c), str(X), f-strings / + / '{}'.format with exactly one tracked value and constants, conditional
expressions with a static test; calls of helper functions / methods defined in the same module whose bodies are in the subset
(inlined); `for` loops over a constant tuple (unrolled)."""
import ast
from .fst import Fst, Dfa, FstError, regex_dfa


class Val:
    """string value as a function of the input string: transducer T (or a constant)"""

    def __init__(self, T=None, const=None, first_of=None):
        self.T, self.const = T, const
        self.first_of = first_of          # transducer whose output's FIRST CHARACTER this value is (e.g. `quote = name[0]`)


def path_of(e):
    if isinstance(e, ast.Name):
        return e.id
    if isinstance(e, ast.Attribute):
        b = path_of(e.value)
        return None if b is None else f'{b}.{e.attr}'
    if isinstance(e, ast.Subscript) and isinstance(e.slice, ast.Constant):
        b = path_of(e.value)
        return None if b is None else f'{b}[{e.slice.value!r}]'
    return None


class Extractor:
    def __init__(self, alphabet, env, funcs=None, consts=None, static=None, depth=0):
        self.A = alphabet
        self.env = dict(env)          # path -> Val
        self.ret = None               # list of (domain dfa or None, Val)
        self.returns = []
        self.funcs = funcs or {}      # name -> FunctionDef of the same module (helpers that may be inlined)
        self.consts = consts or {}    # module-level literal constants
        self.static = static          # callable(test ast) -> True | False | None: tests decided by the caller's assumptions
        self.depth = depth

    NOCONST = object()

    def literal_of(self, e):
        """python value of a constant expression (literal, module-level literal constant, local bound to a constant), else NOCONST"""
        p = path_of(e)
        if p is not None and p in self.env and self.env[p].T is None:
            return self.env[p].const
        if isinstance(e, ast.Name) and e.id in self.consts and (p is None or p not in self.env):
            return self.consts[e.id]
        try:
            return ast.literal_eval(e)
        except Exception:
            pass
        if isinstance(e, (ast.Tuple, ast.List)):
            vals = [self.literal_of(x) for x in e.elts]
            if all(v is not Extractor.NOCONST for v in vals):
                return tuple(vals)
        return Extractor.NOCONST

    def inline(self, fd, argvals, kwvals):
        if self.depth > 4:
            raise FstError('helper nesting too deep')
        a = fd.args
        params = [p.arg for p in a.posonlyargs + a.args]
        if params and params[0] in ('self', 'cls') and len(argvals) < len(params) and 'self' not in kwvals:
            params = params[1:]
        if a.vararg or a.kwarg or len(argvals) > len(params):
            raise FstError(f'call of {fd.name}: signature')
        env = {}
        pos = a.posonlyargs + a.args
        dflt = {p.arg: d for p, d in zip(pos[len(pos) - len(a.defaults):], a.defaults)}
        for name, v in zip(params, argvals):
            env[name] = v
        for name, v in kwvals.items():
            env[name] = v
        for name in params:
            if name not in env:
                if name not in dflt:
                    raise FstError(f'call of {fd.name}: missing argument {name}')
                lit = self.literal_of(dflt[name])
                if lit is Extractor.NOCONST:
                    raise FstError(f'call of {fd.name}: default of {name}')
                env[name] = Val(const=lit)
        sub = Extractor(self.A, env, self.funcs, self.consts, self.static, self.depth + 1)
        sub.run(fd.body)
        T, const = None, Extractor.NOCONST
        for d, v, env_ in sub.paths:
            if d is not None and d.is_empty():
                continue
            if v is None:
                raise FstError(f'helper {fd.name} has a path without a returned value')
            if v.T is None:
                if T is not None or (const is not Extractor.NOCONST and const != v.const):
                    raise FstError(f'helper {fd.name} returns constants and tracked values')
                const = v.const
                continue
            if const is not Extractor.NOCONST:
                raise FstError(f'helper {fd.name} returns constants and tracked values')
            t = v.T if d is None else v.T.on_domain(d)
            T = t if T is None else T.union(t)
        if T is not None:
            return Val(T)
        if const is not Extractor.NOCONST:
            return Val(const=const)
        raise FstError(f'helper {fd.name}: no path')

    def const_of(self, e):
        if isinstance(e, ast.Constant) and isinstance(e.value, str):
            return e.value
        v = self.literal_of(e)
        return v if isinstance(v, str) else None

    def eval(self, e):
        p = path_of(e)
        if p is not None and p in self.env:
            return self.env[p]
        c = self.const_of(e)
        if c is not None:
            return Val(const=c)
        lit = self.literal_of(e)
        if lit is not Extractor.NOCONST:
            return Val(const=lit)
        if isinstance(e, ast.Call):
            f = e.func
            if isinstance(f, ast.Name) and f.id == 'str' and len(e.args) == 1:
                return self.eval(e.args[0])
            hname = f.id if isinstance(f, ast.Name) else (f.attr if isinstance(f, ast.Attribute) and isinstance(f.value, ast.Name) and f.value.id in ('self', 'cls') or
                                                          (isinstance(f, ast.Attribute) and isinstance(f.value, ast.Name) and f.value.id[:1].isupper()) else None)
            if hname is not None and hname in self.funcs and not any(isinstance(a_, ast.Starred) for a_ in e.args):
                return self.inline(self.funcs[hname], [self.eval(a_) for a_ in e.args], {k.arg: self.eval(k.value) for k in e.keywords if k.arg})
            if isinstance(f, ast.Attribute) and f.attr == 'sub' and isinstance(f.value, ast.Name) and f.value.id == 're' and len(e.args) == 3 and not e.keywords:
                pat, tpl = self.const_of(e.args[0]), self.const_of(e.args[1])
                x = self.eval(e.args[2])
                if pat is None or tpl is None or x.T is None:
                    raise FstError('re.sub with a non-constant pattern / template or an untracked subject')
                return Val(x.T.then(Fst.resub(self.A, pat, tpl)))
            if isinstance(f, ast.Attribute):
                base = self.eval(f.value)
                args = [self.const_of(a) for a in e.args]
                if f.attr in ('strip', 'lstrip', 'rstrip') and len(e.args) == 1 and args[0] is None and base.T is not None:
                    q = self.eval(e.args[0])
                    if q.first_of is not None:
                        # strip(<first character of a tracked value>): one case per character that value can start with
                        R = None
                        for c in self.A:
                            dom = q.first_of.then(Fst.restrict(self.A, Dfa.literal(self.A, c).concat(Dfa.star_any(self.A)))).domain()
                            if dom.is_empty():
                                continue
                            t = base.T.on_domain(dom)
                            if f.attr in ('strip', 'lstrip'):
                                t = t.then(Fst.lstrip(self.A, c))
                            if f.attr in ('strip', 'rstrip'):
                                t = t.then(Fst.rstrip(self.A, c))
                            R = t if R is None else R.union(t)
                        if R is None:
                            raise FstError('strip of a value with empty domain')
                        return Val(R)
                if f.attr == 'format' and base.const is not None and len(e.args) == 1 and base.const.count('{}') == 1:
                    pre, suf = base.const.split('{}')
                    return self.wrap(self.eval(e.args[0]), pre, suf)
                if base.T is None:
                    if base.const is not None and all(a is not None for a in args):
                        return Val(const=getattr(base.const, f.attr)(*args))
                    raise FstError(f'method {f.attr} on untracked value')
                if any(a is None for a in args):
                    raise FstError(f'non-constant argument of {f.attr}')
                if f.attr == 'replace' and len(args) == 2:
                    return Val(base.T.then(Fst.replace(self.A, args[0], args[1])))
                if f.attr == 'strip' and len(args) == 1:
                    return Val(base.T.then(Fst.lstrip(self.A, args[0])).then(Fst.rstrip(self.A, args[0])))
                if f.attr == 'lstrip' and len(args) == 1:
                    return Val(base.T.then(Fst.lstrip(self.A, args[0])))
                if f.attr == 'rstrip' and len(args) == 1:
                    return Val(base.T.then(Fst.rstrip(self.A, args[0])))
                raise FstError(f'string method {f.attr}')
            raise FstError('call')
        if isinstance(e, ast.Subscript) and isinstance(e.slice, ast.Constant) and e.slice.value == 0:
            x = self.eval(e.value)
            if x.T is not None:
                return Val(first_of=x.T)
            if isinstance(x.const, str) and x.const:
                return Val(const=x.const[0])
            raise FstError('first character of an untracked value')
        if isinstance(e, ast.Subscript) and isinstance(e.slice, ast.Slice) and e.slice.step is None:
            x = self.eval(e.value)
            if x.T is None:
                raise FstError('slice of untracked value')

            def bound(b):
                if b is None:
                    return None
                if isinstance(b, ast.Constant) and isinstance(b.value, int):
                    return b.value
                if isinstance(b, ast.UnaryOp) and isinstance(b.op, ast.USub) and isinstance(b.operand, ast.Constant):
                    return -b.operand.value
                raise FstError('slice bound')
            lo, hi = bound(e.slice.lower), bound(e.slice.upper)
            T = x.T
            if lo not in (None, 0, 1) or hi not in (None, -1):
                raise FstError(f'slice [{lo}:{hi}]')
            if lo == 1:
                T = T.then(Fst.drop_first(self.A))
            if hi == -1:
                T = T.then(Fst.drop_last(self.A))
            return Val(T)
        if isinstance(e, ast.JoinedStr):
            tracked = None
            pre, suf = '', ''
            for v in e.values:
                if isinstance(v, ast.Constant):
                    if tracked is None:
                        pre += v.value
                    else:
                        suf += v.value
                else:
                    if v.format_spec is not None or v.conversion not in (-1, 115):
                        raise FstError('format spec')
                    x = self.eval(v.value)
                    if x.const is not None:
                        if tracked is None:
                            pre += x.const
                        else:
                            suf += x.const
                    else:
                        if tracked is not None:
                            raise FstError('two tracked values in one f-string')
                        tracked = x
            if tracked is None:
                return Val(const=pre + suf)
            return self.wrap(tracked, pre, suf)
        if isinstance(e, ast.BinOp) and isinstance(e.op, ast.Add):
            a, b = self.eval(e.left), self.eval(e.right)
            if a.const is not None and b.const is not None:
                return Val(const=a.const + b.const)
            if a.const is not None:
                return self.wrap(b, a.const, '')
            if b.const is not None:
                return self.wrap(a, '', b.const)
            raise FstError('concatenation of two tracked values')
        if isinstance(e, ast.IfExp):
            r = self.static(e.test, self) if self.static else None
            if r is None:
                raise FstError('conditional expression')
            return self.eval(e.body if r else e.orelse)
        raise FstError(f'expression {type(e).__name__}: {ast.unparse(e)[:60]}')

    def wrap(self, x, pre, suf):
        if x.T is None:
            raise FstError('wrap of untracked')
        return Val(x.T.then(Fst.wrap(self.A, pre, suf)))

    def test_domain(self, test):
        """input-domain DFA on which `test` is true, for tests X[0] == 'c' (X tracked)"""
        if isinstance(test, ast.Compare) and len(test.ops) == 1 and isinstance(test.ops[0], ast.Eq):
            l, r = test.left, test.comparators[0]
            c = self.const_of(r)
            if isinstance(l, ast.Subscript) and isinstance(l.slice, ast.Constant) and l.slice.value == 0 and c is not None and len(c) == 1:
                x = self.eval(l.value)
                if x.T is None:
                    raise FstError('test on untracked value')
                starts = Dfa.literal(self.A, c).concat(Dfa.star_any(self.A))
                return x.T.then(Fst.restrict(self.A, starts)).domain()
        if isinstance(test, ast.Compare) and len(test.ops) == 1 and isinstance(test.ops[0], (ast.Eq, ast.In)):
            try:
                lv = self.eval(test.left)
            except FstError:
                lv = None
            if lv is not None and lv.first_of is not None:
                lit = self.literal_of(test.comparators[0])
                chars = None
                if isinstance(test.ops[0], ast.Eq) and isinstance(lit, str) and len(lit) == 1:
                    chars = [lit]
                elif isinstance(test.ops[0], ast.In) and isinstance(lit, (str, tuple, list)) and all(isinstance(c, str) and len(c) == 1 for c in lit):
                    chars = list(lit)
                if chars is not None:
                    dom = None
                    for c in chars:
                        if c not in self.A:
                            continue
                        d_ = lv.first_of.then(Fst.restrict(self.A, Dfa.literal(self.A, c).concat(Dfa.star_any(self.A)))).domain()
                        dom = d_ if dom is None else dom.union(d_)
                    return dom if dom is not None else Dfa(self.A, [{}], 0, set())
        raise FstError(f'test {ast.unparse(test)[:60]}')

    def restricted(self, dom):
        ex = Extractor(self.A, {}, self.funcs, self.consts, self.static, self.depth)
        for k, v in self.env.items():
            ex.env[k] = Val(v.T.on_domain(dom)) if v.T is not None else (Val(first_of=v.first_of.on_domain(dom)) if getattr(v, 'first_of', None) is not None else v)
        ex.paths = self.paths
        return ex

    paths = None

    def run(self, body, dom=None):
        """executes statements along every path; each terminal path is recorded in self.paths as (domain, returned Val|None, env)"""
        if self.paths is None:
            self.paths = []
        for i, st in enumerate(body):
            if isinstance(st, ast.Expr) and isinstance(st.value, ast.Constant):
                continue
            if isinstance(st, ast.Assign) and len(st.targets) == 1:
                p = path_of(st.targets[0])
                if p is None:
                    raise FstError('assignment target')
                self.env[p] = self.eval(st.value)
            elif isinstance(st, ast.Return):
                v = None
                if st.value is not None:
                    try:
                        v = self.eval(st.value)
                    except FstError:
                        v = None          # returns an untracked object (e.g. the token): callers read the environment
                        # a node built around the tracked string, e.g. `return Variable(value=value, ...)`: the `value` argument
                        rv = st.value
                        if isinstance(rv, ast.Call) and isinstance(rv.func, ast.Name) and rv.func.id[:1].isupper():
                            arg = next((k.value for k in rv.keywords if k.arg == 'value'), rv.args[0] if rv.args else None)
                            if arg is not None:
                                try:
                                    v = self.eval(arg)
                                except FstError:
                                    v = None
                self.paths.append((dom, v, dict(self.env)))
                return
            elif isinstance(st, ast.If) and self.static is not None and self.static(st.test, self) is not None:
                taken = st.body if self.static(st.test, self) else st.orelse
                self.run(list(taken) + body[i + 1:], dom)
                return
            elif isinstance(st, ast.For) and not st.orelse:
                items = self.literal_of(st.iter)
                if items is Extractor.NOCONST or not isinstance(items, (tuple, list)):
                    raise FstError('for loop over something that is not a constant tuple')
                flat = []
                for it in items:
                    tg = st.target
                    if isinstance(tg, ast.Name):
                        flat.append(ast.Assign(targets=[tg], value=ast.Constant(value=it)))
                    elif isinstance(tg, (ast.Tuple, ast.List)) and isinstance(it, (tuple, list)) and len(tg.elts) == len(it) and all(isinstance(x, ast.Name) for x in tg.elts):
                        for x, v_ in zip(tg.elts, it):
                            flat.append(ast.Assign(targets=[x], value=ast.Constant(value=v_)))
                    else:
                        raise FstError('for target')
                    flat.extend(st.body)
                self.run(flat + body[i + 1:], dom)
                return
            elif isinstance(st, ast.If):
                dtrue = self.test_domain(st.test)
                if dom is not None:
                    dtrue = dtrue.intersect(dom)
                dfalse = dtrue.complement() if dom is None else dom.minus(dtrue)
                rest = body[i + 1:]
                a = self.restricted(dtrue)
                a.run(list(st.body) + rest, dtrue)
                b = self.restricted(dfalse)
                b.run(list(st.orelse) + rest, dfalse)
                return
            elif isinstance(st, ast.Pass):
                continue
            elif isinstance(st, ast.AugAssign) and path_of(st.target) is not None and path_of(st.target) not in self.env \
                    and str(path_of(st.target)).startswith('self.'):
                # bookkeeping on the lexer / parser object (self.lineno += ...): does not touch the value under analysis; recorded for the
                # contracts that care about it (self_updates)
                self.self_updates = getattr(self, 'self_updates', []) + [ast.unparse(st)]
                continue
            else:
                raise FstError(f'statement {type(st).__name__}')
        self.paths.append((dom, None, dict(self.env)))


RAW = {}          # module -> {name: value AST} of module-level assignments that are not literals (e.g. tuples of types)


def module_context(modname):
    """helper functions (module level and methods, by bare name) and literal module-level constants of the module the function lives in"""
    from . import repo
    funcs, consts = {}, {}
    try:
        tree = repo.module_ast(modname)
    except Exception:
        return funcs, consts
    for n in tree.body:
        if isinstance(n, ast.FunctionDef):
            funcs[n.name] = n
        elif isinstance(n, ast.ClassDef):
            for m in n.body:
                if isinstance(m, ast.FunctionDef) and not any(isinstance(d, ast.Call) and getattr(d.func, 'id', None) == '_' for d in m.decorator_list):
                    funcs.setdefault(m.name, m)
        elif isinstance(n, ast.Assign) and len(n.targets) == 1 and isinstance(n.targets[0], ast.Name):
            try:
                consts[n.targets[0].id] = ast.literal_eval(n.value)
            except Exception:
                RAW.setdefault(modname, {})[n.targets[0].id] = n.value
    return funcs, consts


def function_transducer(funcdef, alphabet, input_paths, result='return', result_path=None, module=None, static=None):
    """transducer computed by `funcdef` from the string found at every path in input_paths (all bound to the same input).
    result='return': the returned expression; result='path': the final value of result_path (e.g. 't.value').
    module: name of the module the function lives in (helpers / constants it may use); static: decides tests under the caller's assumptions."""
    ident = Fst.identity(alphabet)
    funcs, consts = module_context(module) if module else ({}, {})
    funcs = {k: v for k, v in funcs.items() if v is not funcdef}
    ex = Extractor(alphabet, {p: Val(ident) for p in input_paths}, funcs, consts, static)
    ex.run(funcdef.body)
    T = None
    for d, v, env in ex.paths:
        if d is not None and d.is_empty():
            continue
        if result == 'path':
            v = env.get(result_path)
        if v is None or v.T is None:
            raise FstError('a path does not produce a tracked string')
        t = v.T if d is None else v.T.on_domain(d)
        T = t if T is None else T.union(t)
    if T is None:
        raise FstError('no path')
    return T


def str_value_assumptions(true_attrs=('with_quotes',)):
    """static test evaluator for printers of a value that is assumed to be a `str`: isinstance(<the tracked value>, T) is decided by whether T
    admits str; the listed boolean attributes of self are assumed true; and/or/not are folded. Anything else: undecided (None)."""
    def static(test, ex):
        if isinstance(test, ast.BoolOp):
            vals = [static(v, ex) for v in test.values]
            if isinstance(test.op, ast.And):
                if any(v is False for v in vals):
                    return False
                return True if all(v is True for v in vals) else None
            if any(v is True for v in vals):
                return True
            return False if all(v is False for v in vals) else None
        if isinstance(test, ast.UnaryOp) and isinstance(test.op, ast.Not):
            v = static(test.operand, ex)
            return None if v is None else (not v)
        if isinstance(test, ast.Call) and isinstance(test.func, ast.Name) and test.func.id == 'isinstance' and len(test.args) == 2:
            try:
                x = ex.eval(test.args[0])
            except FstError:
                return None
            if x.T is None:
                return None
            targ = test.args[1]
            if isinstance(targ, ast.Name):
                for raw in RAW.values():
                    if targ.id in raw:
                        targ = raw[targ.id]
                        break
            names = [ast.unparse(t) for t in (targ.elts if isinstance(targ, (ast.Tuple, ast.List)) else [targ])]
            lit = ex.literal_of(test.args[1])
            if not all(n.replace('.', '').replace('_', '').isalnum() for n in names):
                return None
            # a module-level tuple of types is opaque to literal evaluation: only plain builtin / dotted names are decided
            for n in names:
                if n not in ('str', 'bool', 'int', 'float', 'bytes', 'list', 'tuple', 'dict') and '.' not in n and not n[:1].islower():
                    return None
            return 'str' in names
        if isinstance(test, ast.Attribute) and isinstance(test.value, ast.Name) and test.value.id == 'self' and test.attr in true_attrs:
            return True
        if isinstance(test, ast.Compare) and len(test.ops) == 1 and isinstance(test.ops[0], (ast.Is, ast.IsNot)) and isinstance(test.comparators[0], ast.Constant) \
                and test.comparators[0].value is None:
            try:
                x = ex.eval(test.left)
            except FstError:
                return None
            if x.T is not None:
                return isinstance(test.ops[0], ast.IsNot)
        return None
    return static
