"""Census of state that outlives a call (shared by all properties: any of them can be broken by a cache or a mode that makes a result depend on
what ran before). Purely syntactic over the current source of the scoped modules; every finding names its site.

Kinds
  module-container   a module-level list/dict/set that is written inside a function (except the allow-listed ones)
  class-container    a class-level list/dict/set (not re-bound per instance in __init__) written through an attribute
  global-rebind      `global NAME` + assignment inside a function
  memo               lru_cache / cache / cached_property (failed when the memoised function returns a mutable display, else reported as 'needs contract')
  renderer-state     SqlalchemyRender methods other than __init__ writing attributes of self
  planner-state      attributes of the planner object written outside __init__ that from_query does not re-initialise (prepared-statement
                     protocol attributes `query`, `statement` excepted)
  foreign-state      a mutator call on an object reached through self.dialect (SQLAlchemy keeps such tables on the dialect CLASS)
"""
import ast

from . import repo, frames

GROUPS = {
    'parser': lambda m: m == 'mindsdb_sql' or m.startswith(('mindsdb_sql.parser', 'sly')) or m in ('mindsdb_sql.exceptions',),
    'render': lambda m: m.startswith(('mindsdb_sql.render', 'mindsdb_sql.parser.ast')),
    'planner': lambda m: m.startswith(('mindsdb_sql.planner', 'mindsdb_sql.parser.ast')),
    'all': lambda m: m.startswith(('mindsdb_sql', 'sly')),
}
ALLOWED_MODULE_CONTAINERS = {('mindsdb_sql.parser.ast.select.identifier', 'RESERVED_KEYWORDS')}      # decided by C20.reserved.idem
PROTOCOL_ATTRS = {'query', 'statement'}
SLY_RUNTIME = {'parse', 'tokenize', 'error', 'errok', 'restart', '_tokenize', 'begin', 'push_state', 'pop_state', 'line_position', 'index_position'}
_CACHE = {}


def _is_cont(val):
    return isinstance(val, (ast.Dict, ast.List, ast.Set, ast.ListComp, ast.DictComp, ast.SetComp)) or \
        (isinstance(val, ast.Call) and isinstance(val.func, ast.Name) and val.func.id in ('dict', 'list', 'set', 'defaultdict', 'OrderedDict'))


def problems(group):
    """[(kind, id suffix, detail, hard)] for the module group; hard=False means 'needs contract' (undecided), hard=True a violation of statelessness"""
    if group in _CACHE:
        return _CACHE[group]
    mods = [m for m in repo.all_repo_modules() if GROUPS[group](m)]
    out = []
    for m in mods:
        try:
            tree = repo.module_ast(m)
        except (FileNotFoundError, SyntaxError):
            continue
        # module-level containers and their run-time writers
        names = {}
        for st in tree.body:
            if isinstance(st, ast.Assign) and _is_cont(st.value):
                for t in st.targets:
                    if isinstance(t, ast.Name):
                        names[t.id] = st.lineno
        for fn in ast.walk(tree):
            if not isinstance(fn, (ast.FunctionDef, ast.AsyncFunctionDef)):
                continue
            gl = {nm for n in ast.walk(fn) if isinstance(n, ast.Global) for nm in n.names}
            local = {a.arg for a in fn.args.posonlyargs + fn.args.args + fn.args.kwonlyargs}
            local |= {n.id for n in ast.walk(fn) if isinstance(n, ast.Name) and isinstance(n.ctx, ast.Store)} - gl
            for n in ast.walk(fn):
                tgt = None
                if isinstance(n, ast.Call) and isinstance(n.func, ast.Attribute) and n.func.attr in frames.MUTATORS and isinstance(n.func.value, ast.Name):
                    tgt = n.func.value.id
                elif isinstance(n, (ast.Assign, ast.AugAssign, ast.Delete)):
                    ts = n.targets if isinstance(n, (ast.Assign, ast.Delete)) else [n.target]
                    for t in ts:
                        if isinstance(t, ast.Subscript) and isinstance(t.value, ast.Name):
                            tgt = t.value.id
                        if isinstance(t, ast.Name) and t.id in gl:
                            out.append(('global-rebind', f'{m.split(".")[-1]}.{t.id}', f'{m}:{fn.name} (line {n.lineno}) re-binds the module-level name {t.id}', True))
                if tgt and tgt in names and tgt not in local and (m, tgt) not in ALLOWED_MODULE_CONTAINERS:
                    out.append(('module-container', f'{m.split(".")[-1]}.{tgt}', f'{m}:{fn.name} (line {n.lineno}) writes the module-level container {tgt}: `{ast.unparse(n)[:70]}`', True))
            for d in fn.decorator_list:
                dn = ast.unparse(d)
                if any(k in dn for k in ('lru_cache', 'functools.cache', 'cached_property')) or dn in ('cache', 'cache()'):
                    mutable = any(isinstance(r.value, (ast.List, ast.Dict, ast.Set, ast.ListComp, ast.DictComp, ast.SetComp)) or
                                  (isinstance(r.value, ast.Call) and isinstance(r.value.func, ast.Name) and r.value.func.id in ('list', 'dict', 'set'))
                                  for r in ast.walk(fn) if isinstance(r, ast.Return) and r.value is not None)
                    out.append(('memo', f'{m.split(".")[-1]}.{fn.name}', f'{m}:{fn.name} is memoised (@{dn})' + (' and returns a mutable object that every caller shares' if mutable else ''), mutable))
        # class-level containers written through an attribute
        for cls in ast.walk(tree):
            if not isinstance(cls, ast.ClassDef):
                continue
            inst = set()
            for fn in cls.body:
                if isinstance(fn, ast.FunctionDef) and fn.name == '__init__':
                    for n in ast.walk(fn):
                        if isinstance(n, ast.Assign):
                            inst |= {t.attr for t in n.targets if isinstance(t, ast.Attribute) and isinstance(t.value, ast.Name) and t.value.id == 'self'}
            cnames = {t.id for st in cls.body if isinstance(st, ast.Assign) and _is_cont(st.value) for t in st.targets if isinstance(t, ast.Name) and t.id not in inst}
            if not cnames:
                continue
            for m2 in mods:
                try:
                    tree2 = repo.module_ast(m2)
                except (FileNotFoundError, SyntaxError):
                    continue
                for fn in ast.walk(tree2):
                    if not isinstance(fn, (ast.FunctionDef, ast.AsyncFunctionDef)):
                        continue
                    for n in ast.walk(fn):
                        a = None
                        if isinstance(n, ast.Call) and isinstance(n.func, ast.Attribute) and n.func.attr in frames.MUTATORS and isinstance(n.func.value, ast.Attribute):
                            a = n.func.value
                        elif isinstance(n, (ast.Assign, ast.AugAssign, ast.Delete)):
                            ts = n.targets if isinstance(n, (ast.Assign, ast.Delete)) else [n.target]
                            for t in ts:
                                if isinstance(t, ast.Subscript) and isinstance(t.value, ast.Attribute):
                                    a = t.value
                        if a is not None and a.attr in cnames:
                            out.append(('class-container', f'{cls.name}.{a.attr}', f'{m2}:{fn.name} (line {n.lineno}) writes the class-level container {cls.name}.{a.attr} (shared by all instances): `{ast.unparse(n)[:70]}`', True))
    if group in ('render', 'all'):
        R = 'mindsdb_sql.render.sqlalchemy_render'
        for s_ in frames.self_state_writes(R, 'SqlalchemyRender'):
            out.append(('renderer-state', s_.where.split(':')[-1].split('.')[-1] + '.' + s_.text.split('=')[0].split('(')[0].strip().replace(' ', '')[:40], f'{s_.where} (line {s_.lineno}) keeps state on the renderer: `{s_.text}`', True))
        try:
            fd = repo.find_function(R, 'SqlalchemyRender.__init__')
            for n in ast.walk(fd):
                if isinstance(n, ast.Call) and isinstance(n.func, ast.Attribute) and n.func.attr in frames.MUTATORS:
                    chain = ast.unparse(n.func.value)
                    if chain.startswith('self.dialect.') :
                        out.append(('foreign-state', chain.replace('self.', ''), f'{R}:SqlalchemyRender.__init__ (line {n.lineno}) mutates `{chain}` in place: SQLAlchemy keeps such tables on the dialect class, so every renderer of that dialect family is affected', True))
        except Exception:
            pass
    if group in ('planner', 'all'):
        W, RST = {}, set()
        # methods of QueryPlanner that only __init__ (transitively) calls are part of construction
        init_only = set()
        try:
            qp = repo.find_class('mindsdb_sql.planner.query_planner', 'QueryPlanner')
            meths = {f.name: f for f in qp.body if isinstance(f, ast.FunctionDef)}
            calls = {n_: {c.func.attr for c in ast.walk(f) if isinstance(c, ast.Call) and isinstance(c.func, ast.Attribute) and isinstance(c.func.value, ast.Name) and c.func.value.id == 'self'} for n_, f in meths.items()}
            reach, work = set(), ['__init__']
            while work:
                x = work.pop()
                for y in calls.get(x, ()):
                    if y in meths and y not in reach:
                        reach.add(y)
                        work.append(y)
            others = set()
            for m in mods:
                if not m.startswith('mindsdb_sql'):
                    continue
                for fn in ast.walk(repo.module_ast(m)):
                    if isinstance(fn, ast.FunctionDef) and not (fn.name == '__init__' or fn.name in reach):
                        others |= {c.func.attr for c in ast.walk(fn) if isinstance(c, ast.Call) and isinstance(c.func, ast.Attribute)}
            init_only = {x for x in reach if x not in others}
        except Exception:
            init_only = set()
        for m in mods:
            if not m.startswith('mindsdb_sql.planner'):
                continue
            tree = repo.module_ast(m)
            for cls in ast.walk(tree):
                if not isinstance(cls, ast.ClassDef):
                    continue
                for fn in cls.body:
                    if not isinstance(fn, ast.FunctionDef):
                        continue
                    for n in ast.walk(fn):
                        ts = []
                        if isinstance(n, ast.Assign):
                            ts = n.targets
                        elif isinstance(n, ast.AugAssign):
                            ts = [n.target]
                        elif isinstance(n, ast.Call) and isinstance(n.func, ast.Attribute) and n.func.attr in frames.MUTATORS:
                            ts = [n.func.value]
                        flat = []
                        for t in ts:
                            flat += list(t.elts) if isinstance(t, (ast.Tuple, ast.List)) else [t]
                        for t in flat:
                            base = t
                            while isinstance(base, ast.Subscript):
                                base = base.value
                            if not isinstance(base, ast.Attribute):
                                continue
                            chain = ast.unparse(base)
                            attr = None
                            if chain.startswith('self.planner.') and chain.count('.') == 2:
                                attr = chain.split('.')[-1]
                            elif cls.name == 'QueryPlanner' and chain.startswith('self.') and chain.count('.') == 1:
                                attr = chain.split('.')[-1]
                            if attr is None:
                                continue
                            if cls.name == 'QueryPlanner' and fn.name == 'from_query' and isinstance(n, ast.Assign):
                                RST.add(attr)
                            elif not (cls.name == 'QueryPlanner' and (fn.name == '__init__' or fn.name in init_only)):
                                W.setdefault(attr, []).append(f'{m}:{cls.name}.{fn.name} (line {n.lineno})')
        for attr, sites in sorted(W.items()):
            if attr not in RST and attr not in PROTOCOL_ATTRS:
                out.append(('planner-state', attr, f'planner attribute `{attr}` is written at {sites[:2]} and is not re-initialised by QueryPlanner.from_query: it carries over into the next plan of the same planner', True))
    # the vendored SLY writes class/module-level tables while a lexer/parser CLASS is being built (metaclass, decorators: import time);
    # only its run-time entry points count here
    def runtime(p):
        d = p[2]
        if d.startswith('sly.'):
            fn_ = d.split(':', 1)[1].split(' ', 1)[0]
            return fn_ in SLY_RUNTIME
        return True
    out = [p for p in out if runtime(p)]
    # de-duplicate by (kind, suffix)
    seen, uniq = set(), []
    for p in out:
        if (p[0], p[1]) not in seen:
            seen.add((p[0], p[1]))
            uniq.append(p)
    _CACHE[group] = uniq
    return uniq


def _immutable(v, depth=0):
    if v is None or isinstance(v, (bool, int, float, complex, str, bytes, type)) or callable(v) and not hasattr(v, '__dict__'):
        return True
    if isinstance(v, (tuple, frozenset)) and depth < 4:
        return all(_immutable(x, depth + 1) for x in v)
    import types as _t
    if isinstance(v, (_t.FunctionType, _t.BuiltinFunctionType, _t.ModuleType)):
        return True
    import re as _re
    return isinstance(v, _re.Pattern)


def memo_probe(memo):
    """for every memoised module-level function: the arguments it receives while a few statements are parsed, printed, rendered and planned by the real
    code are recorded (by wrapping the module attribute), then the real function is called twice with each of them: an identical, mutable result
    is state shared between calls and threads.  -> [(name, 'immutable' | 'shared-mutable' | 'unknown', args, what)]"""
    import importlib
    out = []
    for entry in memo:
        modname, rest = entry.split(':', 1)
        fname = rest.split(' @')[0]
        try:
            mod = importlib.import_module(modname)
            orig = getattr(mod, fname)
        except Exception:
            out.append((entry, 'unknown', None, 'not a module-level function'))
            continue
        calls = []

        def rec(*a, _orig=orig, **k):
            calls.append((a, k))
            return _orig(*a, **k)
        setattr(mod, fname, rec)
        try:
            import mindsdb_sql
            from mindsdb_sql.planner import plan_query
            for d in ('sqlite', 'mysql', 'mindsdb'):
                try:
                    t = mindsdb_sql.parse_sql('select a from int1.t where b = 1', dialect=d)
                    str(t)
                    plan_query(t, integrations=['int1'], default_namespace='mindsdb')
                    from mindsdb_sql.render.sqlalchemy_render import SqlalchemyRender
                    SqlalchemyRender('mysql').get_string(t)
                except Exception:
                    pass
        finally:
            setattr(mod, fname, orig)
        if not calls:
            out.append((entry, 'unknown', None, 'not reached by the probe statements'))
            continue
        verdict = ('immutable', None, None)
        for a, k in calls[:6]:
            try:
                r1, r2 = orig(*a, **k), orig(*a, **k)
            except Exception:
                continue
            if _immutable(r1):
                continue
            parts = list(zip(r1, r2)) if isinstance(r1, tuple) and isinstance(r2, tuple) else [(r1, r2)]
            same = [type(x).__name__ for x, y in parts if x is y and not _immutable(x)]
            if same:
                verdict = ('shared-mutable', a, f'two calls with {a} return the same {", ".join(same)} object(s)')
                break
            verdict = ('immutable', None, None)
        out.append((entry, verdict[0], verdict[1], verdict[2]))
    return out



def obligations(rep, prop, group, replay=None):
    """adds `<prop>.state.<kind>.<site>` obligations (one proved summary when the group is clean)"""
    ps = problems(group)
    clause = 'no state outlives a call: no module/class-level container, global, memo, renderer or planner attribute is written at run time (planner: unless from_query re-initialises it)'
    if not ps:
        rep.proved(f'{prop}.state', 'frames', f'module group `{group}`: nothing written at run time outlives a call', function=f'(modules: {group})', clause=clause)
        return
    emitted = 0
    for kind, suffix, detail, hard in ps:
        emitted += 1
        oid = f'{prop}.state.{kind}.{suffix}'
        if hard:
            rp = replay() if callable(replay) else replay
            rep.failed(oid, 'frames', detail, function=f'(modules: {group})', clause=clause, replay=rp)
        else:
            # a memoised function: what matters is what it hands out. Probed on the real code (two calls with the arguments it really receives):
            # immutable results are not state; a shared mutable object is decided by C20 (isolation), for the other properties it leaves the
            # sufficient condition "no state outlives a call" open
            entry = detail.split(' is memoised (@')[0] + ' @' + detail.split(' is memoised (@')[1].split(')')[0] + ')'
            pr = memo_probe([entry])[0]
            if pr[1] == 'immutable':
                emitted -= 1
                continue
            rep.undecided(oid, 'frames', detail + (f': {pr[3]}' if pr[1] == 'shared-mutable' else ': the memoised result type needs a contract'), function=f'(modules: {group})', clause=clause)
    if not emitted:
        rep.proved(f'{prop}.state', 'frames', f'module group `{group}`: nothing written at run time outlives a call (memoised functions return immutable values)', function=f'(modules: {group})', clause=clause)
