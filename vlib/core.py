"""Core of the verification framework: obligations, verdicts, known findings, evidence, exit codes.

Exit codes (DESIGN §3): 0 held / 1 violation / 2 undecided / 3 checker malfunction.
"""
import json, os, sys, time, traceback, hashlib

VERIF = os.path.dirname(os.path.dirname(os.path.abspath(__file__)))
REPO_ROOT = os.environ.get('REPO_ROOT', '/repo')
OUT = os.environ.get('VERIF_OUT', VERIF)      # evidence/ and replays/ go here (selftest redirects them)

PROVED, FAILED, UNDECIDED = 'PROVED', 'FAILED', 'UNDECIDED'


class CheckerError(Exception):
    """The checker itself is broken (exit 3); never a verdict."""


class Ob:
    """One proof obligation (a named case) and its verdict."""
    __slots__ = ('id', 'status', 'engine', 'detail', 'cex', 'replay', 'seconds', 'function', 'clause', 'soft')

    def __init__(self, id, status, engine, detail='', cex=None, replay=None, seconds=0.0, function='', clause='', soft=False):
        self.soft = soft              # a sufficient-condition lemma whose bounded stand-in is exhaustive up to a stated depth: left open it does not change the exit code
        self.id = id
        self.status = status
        self.engine = engine          # 'pysym' | 'smt:z3' | 'smt:cvc5' | 'fst' | 'lrtab' | 'frames'
        self.detail = detail          # verifier output / reason
        self.cex = cex                # abstract counterexample (json-able)
        self.replay = replay          # dict(input=..., fires=bool, observed=..., expected=...) after native replay
        self.seconds = seconds
        self.function = function      # function(s) under contract
        self.clause = clause          # contract clause text

    def to_json(self):
        return {k: getattr(self, k) for k in self.__slots__}


class Bounded:
    """Result of a bounded stand-in (never counted as proved)."""
    __slots__ = ('id', 'ok', 'input', 'observed', 'expected', 'bound')

    def __init__(self, id, ok, input=None, observed=None, expected=None, bound=''):
        self.id, self.ok, self.input, self.observed, self.expected, self.bound = id, ok, input, observed, expected, bound

    def to_json(self):
        return {k: getattr(self, k) for k in self.__slots__}


def load_known():
    p = os.path.join(VERIF, 'known_findings.json')
    if not os.path.exists(p):
        return {'findings': [], 'fixed': []}
    with open(p) as f:
        return json.load(f)


class Report:
    def __init__(self, prop, tier, level, seed=0):
        self.prop, self.tier, self.level, self.seed = prop, tier, level, seed
        self.t0 = time.time()
        self.obs = []            # Ob
        self.bounded = []        # Bounded
        self.functions = set()   # functions under contract
        self.assumptions = []
        self.trusted = []
        self.census = {}         # vacuity numbers
        self.notes = []
        self.bounded_evals = 0
        self.bounded_rule = ''
        self.solver_s = {}
        self.dropped = ''        # what extraction drops

    def listed(self, oid):
        """the known-findings entry for this case id (contracts replay its witness first)"""
        if not hasattr(self, '_listed'):
            self._listed = {f['id']: f for f in load_known().get('findings', []) if f['property'] == self.prop}
        return self._listed.get(oid)

    # -- recording
    def add(self, ob):
        self.obs.append(ob)
        if ob.function:
            for f in ob.function.split(','):
                self.functions.add(f.strip())
        self.solver_s[ob.engine] = self.solver_s.get(ob.engine, 0.0) + (ob.seconds or 0.0)
        return ob

    def proved(self, id, engine, detail='', **kw):
        return self.add(Ob(id, PROVED, engine, detail, **kw))

    def failed(self, id, engine, detail='', **kw):
        return self.add(Ob(id, FAILED, engine, detail, **kw))

    def undecided(self, id, engine, detail='', **kw):
        return self.add(Ob(id, UNDECIDED, engine, detail, **kw))

    def add_bounded(self, b):
        self.bounded.append(b)
        return b

    def assume(self, *texts):
        for t in texts:
            if t not in self.assumptions:
                self.assumptions.append(t)

    def trust(self, *texts):
        for t in texts:
            if t not in self.trusted:
                self.trusted.append(t)

    def unlisted_failures(self):
        """failed obligations / bounded cases of this (sub-)report that are not known findings of its property: used when a check depends on the
        contract of another property's function and re-evaluates it (the listed findings stay with their own property)"""
        known = load_known()
        listed = {f['id']: f for f in known.get('findings', []) if f['property'] == self.prop}
        out = []
        for o in self.obs:
            if o.status == FAILED:
                f = listed.get(o.id)
                if not (f is not None and self._same_finding(f, o)):
                    out.append(o)
        for b in self.bounded:
            if not b.ok:
                f = listed.get(b.id)
                if f is None:
                    out.append(b)
        return out

    # -- finishing
    def finish(self):
        known = load_known()
        listed = {f['id']: f for f in known.get('findings', []) if f['property'] == self.prop}
        lines = []
        violations = []
        kf_lines = []
        undec = [o for o in self.obs if o.status == UNDECIDED]
        ids = [o.id for o in self.obs] + [b.id for b in self.bounded]
        dup = {i for i in ids if ids.count(i) > 1}
        if dup:
            raise CheckerError(f'duplicate obligation ids: {sorted(dup)[:5]}')
        if not self.obs:
            raise CheckerError('zero obligations generated (vacuity guard)')
        seen_known = set()
        for o in self.obs:
            if o.status != FAILED:
                continue
            if o.replay is not None and o.replay.get('fires') is False:
                # the stock witness attached to this obligation does not reproduce on this tree: the failed obligation is still
                # reported, without a failing input (a verifier-produced counterexample that does not replay is flagged by the
                # contract itself with strict=True)
                if o.replay.get('strict'):
                    raise CheckerError(f'spurious counterexample for {o.id}: {o.replay}')
                self.unreproduced = getattr(self, 'unreproduced', 0) + 1
                o.replay = {'input': None, 'observed': f'stock witness does not reproduce here: {o.replay.get("observed")}'}
            f = listed.get(o.id)
            if f is not None and self._same_finding(f, o):
                seen_known.add(o.id)
                kf_lines.append(f"KNOWN-FINDING: property={self.prop} {o.id} {f['what']}")
            else:
                violations.append(('ob', o))
        for b in self.bounded:
            if b.ok:
                continue
            f = listed.get(b.id)
            # bounded case ids name a failure CLASS (call site / cause / shape); the stored witness is only the first member a run met,
            # which differs between tiers and seeds: a listed class matches by id
            if f is not None:
                seen_known.add(b.id)
                kf_lines.append(f"KNOWN-FINDING: property={self.prop} {b.id} {f['what']}")
            else:
                violations.append(('bounded', b))
        # listed findings that no longer fail: stay silent (a fixed defect), but note it
        stale = [i for i in listed if i not in seen_known]
        for l in kf_lines:
            print(l)
        rc = 0
        os.makedirs(os.path.join(OUT, 'replays', self.prop), exist_ok=True)
        for old in os.listdir(os.path.join(OUT, 'replays', self.prop)):
            os.unlink(os.path.join(OUT, 'replays', self.prop, old))
        for kind, v in violations:
            rc = 1
            rp = os.path.join(OUT, 'replays', self.prop, _safe(v.id) + '.json')
            with open(rp, 'w') as f:
                json.dump({'property': self.prop, 'kind': kind, 'repo_root': REPO_ROOT, **v.to_json()}, f, indent=1, default=str)
            tail = ''
            if kind == 'ob' and (v.replay is None or v.replay.get('input') is None):
                tail = ' no-failing-input-found'
            print(f'VIOLATION property={self.prop} replay={rp}{tail}')
            print(f'  obligation {v.id}: {(getattr(v, "detail", None) or getattr(v, "observed", ""))!s:.300}')
        hard = [o for o in undec if not o.soft]
        if hard:
            rc = rc or 2
        for o in undec[:20]:
            print(f'{"NOT-ESTABLISHED (bounded evidence only)" if o.soft else "UNDECIDED"} property={self.prop} {o.id}: {o.detail!s:.300}')
        self._write_evidence(violations, kf_lines, stale, undec)
        n_p = sum(1 for o in self.obs if o.status == PROVED)
        print(f'[{self.prop}] tier={self.tier} obligations={len(self.obs)} proved={n_p} '
              f'failed={sum(1 for o in self.obs if o.status == FAILED)} undecided={len(undec)} '
              f'known-findings={len(kf_lines)} bounded-cases={self.bounded_evals or len(self.bounded)} '
              f'violations={len(violations)} wall={time.time() - self.t0:.1f}s rc={rc}')
        return rc

    @staticmethod
    def _same_finding(f, o):
        """A listed finding suppresses a FAILED obligation only if it is the same failure:
        same case id and (when the listing carries a witness) that witness still fails."""
        w = f.get('witness')
        if w is None:
            return True
        r = o.replay or {}
        if r.get('input') == w:
            return bool(r.get('fires', True))
        also = r.get('also_fires') or []
        return w in also

    def _write_evidence(self, violations, kf_lines, stale, undec):
        n_p = sum(1 for o in self.obs if o.status == PROVED)
        by_engine = {}
        for o in self.obs:
            d = by_engine.setdefault(o.engine, {'obligations': 0, 'discharged': 0, 'failed': 0, 'undecided': 0})
            d['obligations'] += 1
            d['discharged'] += o.status == PROVED
            d['failed'] += o.status == FAILED
            d['undecided'] += o.status == UNDECIDED
        samples = []
        for st in (PROVED, FAILED):
            for o in [o for o in self.obs if o.status == st][:4]:
                samples.append({'obligation': o.id, 'status': o.status, 'engine': o.engine, 'function': o.function,
                                'clause': o.clause, 'detail': str(o.detail)[:400],
                                'replay': o.replay if o.replay is None else {k: str(v)[:300] for k, v in o.replay.items()}})
        for b in self.bounded[:3]:
            samples.append({'bounded_case': b.id, 'ok': b.ok, 'input': str(b.input)[:300], 'bound': b.bound})
        distinct = len({o.id for o in self.obs})
        cov = {
            'obligations': len(self.obs),
            'discharged': n_p,
            'failed_listed_as_known_findings': len(kf_lines),
            'undecided': len(undec),
            'by_back_end': by_engine,
            'solver_seconds': {k: round(v, 3) for k, v in self.solver_s.items()},
            'functions_under_contract': sorted(self.functions),
            'checker_cmd': f'bin/vcheck {self.prop} --tier {self.tier}',
            'trusted_base': self.trusted,
            'census': self.census,
            'bounded_stand_in': {
                'note': 'bounded stand-ins are never counted in obligations/discharged',
                'evaluations': self.bounded_evals,
                'rule': self.bounded_rule,
                'failing_cases': [b.to_json() for b in self.bounded if not b.ok][:50],
            },
            'evaluations': len(self.obs) + self.bounded_evals,
            'distinct_nontrivial': distinct,
            'rule': 'one obligation per named case (function x path/shape class, table row, codec case); '
                    'distinct = distinct obligation ids; every obligation is generated from the current source of $REPO_ROOT',
            'samples': samples,
            'explanation': ' '.join(self.notes) or 'see DESIGN.md',
            'known_findings_reported': kf_lines,
            'listed_findings_not_failing_now': stale,
            'extraction_drops': self.dropped,
            'exhaustive': False,
        }
        cov.update(self.extra_cov if hasattr(self, 'extra_cov') else {})
        ev = {
            'property_id': self.prop, 'tier': self.tier, 'seed': self.seed, 'level': self.level,
            'coverage': cov, 'assumptions': self.assumptions, 'wall_s': round(time.time() - self.t0, 2),
            'violations': len(violations),
        }
        os.makedirs(os.path.join(OUT, 'evidence'), exist_ok=True)
        with open(os.path.join(OUT, 'evidence', self.prop + '.json'), 'w') as f:
            json.dump(ev, f, indent=1, default=str)


def _safe(s):
    out = ''.join(c if c.isalnum() or c in '._-' else '_' for c in s)
    if len(out) > 120:
        out = out[:100] + hashlib.sha1(s.encode()).hexdigest()[:12]
    return out


def run_check(prop, fn, tier, level):
    """Runs a property check function fn(report) with the exit-code discipline."""
    seed = int(os.environ.get('VERIF_SEED', '0') or 0)
    rep = Report(prop, tier, level, seed)
    try:
        fn(rep)
        return rep.finish()
    except CheckerError as e:
        print(f'CHECKER-ERROR property={prop}: {e}')
        return 3
    except Exception:
        traceback.print_exc()
        print(f'CHECKER-ERROR property={prop}: traceback above')
        return 3


def exc_class_id(e, maxwords=7):
    """refactoring- and input-stable class id of an escaped exception: its type plus the code-dependent part of its message. Dropped: the function that
    happened to raise (extracting a helper must not create a new class), quoted data, numbers, run-time class names. Kept: the attribute name of an
    AttributeError and the key of a KeyError when that key is a string literal of the raising source file (a key written in the code, not data)."""
    import re as _re
    import traceback as _tb
    msg = str(e)
    name = type(e).__name__
    m = _re.search(r"object has no attribute '(\w+)'", msg)
    if isinstance(e, AttributeError) and m:
        return f'{name}.no-attribute-{m.group(1)}'
    if isinstance(e, KeyError):
        key = e.args[0] if e.args and isinstance(e.args[0], str) else None
        if key and _re.fullmatch(r'\w+', key):
            for fr in reversed(_tb.extract_tb(e.__traceback__)):
                if '/mindsdb_sql/' in fr.filename or '/sly/' in fr.filename:
                    try:
                        src = open(fr.filename).read()
                    except OSError:
                        break
                    if f"'{key}'" in src or f'"{key}"' in src:
                        return f'{name}.{key}'
                    break
        return f'{name}.data-key'
    msg = _re.sub(r"'[^']*'|\"[^\"]*\"", ' ', msg)
    msg = _re.sub(r'0x[0-9a-fA-F]+|\b\d+\b', ' ', msg)
    words = _re.findall(r'[A-Za-z_][A-Za-z_0-9]*', msg)
    words = [w for i_, w in enumerate(words) if i_ == 0 or not (w[0].isupper() and any(c.islower() for c in w))][:maxwords]
    return f'{name}.' + ('-'.join(words) if words else 'no-message')
