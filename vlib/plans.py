"""Planner scenarios for bounded stand-ins: (a) a generated family of queries x catalogs, (b) every planner call made by
the repository's own planner tests (harvested by running them under a recording pytest plugin from /verif — no repo
edit).  Never counted as proof."""
import copy, itertools, json, os, pickle, subprocess, sys, tempfile
from .core import VERIF, REPO_ROOT

_cache = {}


def catalogs():
    """name -> kwargs for QueryPlanner (fresh objects on every call)"""
    def preds_list():
        return [
            {'name': 'pred', 'integration_name': 'mindsdb'},
            {'name': 'pred2', 'integration_name': 'proj'},
            {'name': 'tp', 'integration_name': 'mindsdb', 'timeseries': True, 'window': 3, 'horizon': 2,
             'order_by_column': 't', 'group_by_columns': ['g']},
            # time-series models without grouping (both spellings a catalog uses) and with two grouping columns
            {'name': 'tpnone', 'integration_name': 'mindsdb', 'timeseries': True, 'window': 3, 'horizon': 2, 'order_by_column': 't', 'group_by_columns': None},
            {'name': 'tpempty', 'integration_name': 'mindsdb', 'timeseries': True, 'window': 3, 'horizon': 2, 'order_by_column': 't', 'group_by_columns': []},
            {'name': 'tptwo', 'integration_name': 'mindsdb', 'timeseries': True, 'window': 3, 'horizon': 2, 'order_by_column': 'T', 'group_by_columns': ['g', 'h']},
        ]
    out = {
        'names': dict(integrations=['int1', 'int2', 'files'], predictor_metadata=preds_list(), default_namespace='mindsdb'),
        'dicts': dict(integrations=[{'name': 'int1', 'type': 'data', 'class_type': 'sql'}, {'name': 'int2', 'type': 'data', 'class_type': 'sql'},
                                    {'name': 'api1', 'type': 'data', 'class_type': 'api'}, {'name': 'proj', 'type': 'project'}],
                      predictor_metadata=preds_list(), default_namespace='mindsdb'),
        'legacy-dict': dict(integrations=['int1', 'int2'], predictor_namespace='mindsdb',
                            predictor_metadata={'pred': {}, 'tp': {'timeseries': True, 'window': 3, 'horizon': 2, 'order_by_column': 't', 'group_by_columns': ['g']},
                                                'tpnone': {'timeseries': True, 'window': 3, 'horizon': 2, 'order_by_column': 't', 'group_by_columns': None},
                                                'tpempty': {'timeseries': True, 'window': 3, 'horizon': 2, 'order_by_column': 't', 'group_by_columns': []},
                                                'tptwo': {'timeseries': True, 'window': 3, 'horizon': 2, 'order_by_column': 'T', 'group_by_columns': ['g', 'h']}}),
        'no-default': dict(integrations=['int1', 'int2'], predictor_metadata=preds_list()),
        'default-int1': dict(integrations=['int1', 'int2'], predictor_metadata=preds_list(), default_namespace='int1'),
    }
    return out


def generated_queries(tier='quick'):
    """(case name, sql) — predictor-free multi-integration joins, sub-selects, unions, CTEs, DML, model joins"""
    q = []
    joins = ['JOIN', 'LEFT JOIN', 'RIGHT JOIN', 'FULL JOIN', 'INNER JOIN']
    wheres = ['', 'WHERE t1.a = 1', 'WHERE t1.a = 1 AND t2.b = 2', 'WHERE t1.a = 1 OR t2.b = 2', 'WHERE NOT t2.b = 2', 'WHERE t1.a > t2.b',
              'WHERE t2.b IN (1, 2)', 'WHERE t1.a BETWEEN 1 AND 2', 'WHERE f(t2.b) = 1']
    tails = ['', 'LIMIT 5', 'ORDER BY t1.a LIMIT 5', 'GROUP BY t1.a', 'GROUP BY t1.a LIMIT 5', 'ORDER BY t1.a', 'LIMIT 5 OFFSET 2']
    for j, w, t in itertools.product(joins, wheres, tails):
        if tier == 'quick' and (__import__('zlib').crc32(repr((j, w, t)).encode()) % 3):
            continue
        q.append((f'join2:{j}:{w}:{t}', f'SELECT t1.a, t2.b FROM int1.tbl1 AS t1 {j} int2.tbl2 AS t2 ON t1.id = t2.id {w} {t}'))
    for j1, j2 in itertools.product(joins[:3], joins[:3]):
        q.append((f'join3:{j1}:{j2}', f'SELECT * FROM int1.tbl1 AS t1 {j1} int2.tbl2 AS t2 ON t1.id = t2.id {j2} int1.tbl3 AS t3 ON t2.id = t3.id WHERE t1.a = 1 LIMIT 3'))
    q += [
        ('subselect-where', 'SELECT a FROM int1.tbl1 WHERE b IN (SELECT c FROM int2.tbl2)'),
        ('subselect-notin', 'SELECT a FROM int1.tbl1 WHERE b NOT IN (SELECT c FROM int2.tbl2 WHERE d = 1)'),
        ('subselect-target', 'SELECT a, (SELECT max(c) FROM int2.tbl2) FROM int1.tbl1'),
        ('subselect-under-not', 'SELECT a FROM int1.tbl1 WHERE NOT (b IN (SELECT c FROM int2.tbl2))'),
        ('subselect-under-minus', 'SELECT a FROM int1.tbl1 WHERE b > -(SELECT max(c) FROM int2.tbl2)'),
        ('subselect-under-function', 'SELECT a FROM int1.tbl1 WHERE b > coalesce((SELECT max(c) FROM int2.tbl2), 0)'),
        ('subselect-under-between', 'SELECT a FROM int1.tbl1 WHERE b BETWEEN 1 AND (SELECT max(c) FROM int2.tbl2)'),
        ('subselect-under-case', 'SELECT CASE WHEN b > (SELECT max(c) FROM int2.tbl2) THEN 1 ELSE 0 END FROM int1.tbl1'),
        ('subselect-having', 'SELECT a, count(*) FROM int1.tbl1 GROUP BY a HAVING count(*) > (SELECT max(c) FROM int2.tbl2)'),
        ('subselect-having-nogroup', 'SELECT count(*) FROM int1.tbl1 HAVING count(*) > (SELECT max(c) FROM int2.tbl2)'),
        ('subselect-orderby', 'SELECT a FROM int1.tbl1 ORDER BY (SELECT max(c) FROM int2.tbl2)'),
        ('subselect-join-mixed-where', 'SELECT * FROM int1.tbl1 WHERE a IN (SELECT x.id FROM int1.tbl2 AS x JOIN int2.tbl3 AS y ON x.id = y.id)'),
        ('subselect-join-mixed-target', 'SELECT a, (SELECT max(y.b) FROM int1.tbl2 AS x JOIN int2.tbl3 AS y ON x.id = y.id) FROM int1.tbl1'),
        ('subselect-join-mixed-delete', 'DELETE FROM int1.tbl1 WHERE a IN (SELECT x.id FROM int1.tbl2 AS x JOIN int2.tbl3 AS y ON x.id = y.id)'),
        ('subselect-join-same', 'SELECT * FROM int1.tbl1 WHERE a IN (SELECT x.id FROM int1.tbl2 AS x JOIN int1.tbl3 AS y ON x.id = y.id)'),
        ('subselect-same', 'SELECT * FROM int1.tbl1 WHERE a IN (SELECT id FROM int1.tbl2)'),
        ('subselect-nested-other', 'SELECT * FROM int1.tbl1 WHERE a IN (SELECT id FROM int1.tbl2 WHERE b IN (SELECT id FROM int2.tbl3))'),
        ('subselect-model', 'SELECT * FROM int1.tbl1 WHERE a IN (SELECT p FROM mindsdb.pred WHERE x = 1)'),
        ('cte-name-collision', 'WITH tbl2 AS (SELECT * FROM int1.tbl1) SELECT * FROM tbl2 o JOIN int2.tbl2 a ON o.id = a.id'),
        ('cte-name-collision-sub', 'WITH tbl2 AS (SELECT * FROM int1.tbl1) SELECT * FROM tbl2 WHERE id IN (SELECT id FROM INT2.tbl2)'),
        ('cte-shadows-own-table', 'WITH tbl1 AS (SELECT * FROM int1.tbl1 WHERE a = 1) SELECT * FROM tbl1 JOIN int2.tbl2 AS t2 ON t2.id = tbl1.id'),
        ('cte-shadows-default-table', 'WITH tbl1 AS (SELECT * FROM tbl1 WHERE a = 1) SELECT * FROM tbl1 JOIN int2.tbl2 AS t2 ON t2.id = tbl1.id'),
        ('cte-unused', 'WITH u AS (SELECT a FROM int1.tbl1) SELECT * FROM int1.tbl1 a JOIN int2.tbl2 b ON b.id = a.id'),
        ('subselect-from-join', 'SELECT * FROM (SELECT * FROM int1.tbl1 WHERE a IN (SELECT id FROM int2.tbl3)) AS s JOIN int2.tbl2 AS t2 ON s.id = t2.id'),
        ('subselect-from', 'SELECT x.a FROM (SELECT a FROM int1.tbl1 WHERE b = 1) AS x JOIN int2.tbl2 AS t2 ON x.a = t2.a'),
        ('case-operand-subquery', "SELECT CASE (SELECT max(c) FROM int2.tbl2) WHEN 1 THEN 'a' ELSE 'b' END FROM int1.tbl1"),
        ('union', 'SELECT a FROM int1.tbl1 UNION SELECT a FROM int2.tbl2'),
        ('union-all', 'SELECT a FROM int1.tbl1 UNION ALL SELECT a FROM int2.tbl2'),
        ('cte', 'WITH c AS (SELECT a FROM int1.tbl1) SELECT * FROM c JOIN int2.tbl2 AS t2 ON c.a = t2.a'),
        ('single-int', 'SELECT a, b FROM int1.tbl1 WHERE a = 1 ORDER BY b LIMIT 2'),
        ('single-int-join', 'SELECT t1.a FROM int1.tbl1 AS t1 JOIN int1.tbl2 AS t2 ON t1.id = t2.id'),
        ('case-qualifier', 'SELECT * FROM INT1.tbl1 AS t1 JOIN int2.tbl2 AS t2 ON t1.id = t2.id'),
        ('api-select', 'SELECT a FROM api1.tbl1 WHERE b = 1 ORDER BY a LIMIT 2'),
        ('insert-select', 'INSERT INTO int1.tbl1 (a) SELECT a FROM int2.tbl2'),
        ('insert-values', 'INSERT INTO int1.tbl1 (a, b) VALUES (1, 2)'),
        ('update', 'UPDATE int1.tbl1 SET a = 1 WHERE b = 2'),
        ('update-from', 'UPDATE int1.tbl1 ON a FROM (SELECT a, b FROM int2.tbl2)'),
        ('delete', 'DELETE FROM int1.tbl1 WHERE a = 1'),
        ('create-table', 'CREATE TABLE int1.tbl9 (SELECT a FROM int2.tbl2)'),
        ('model-select', "SELECT * FROM mindsdb.pred WHERE x = 1"),
        ('model-join', 'SELECT t.a, m.p FROM int1.tbl1 AS t JOIN mindsdb.pred AS m WHERE t.a = 1 LIMIT 2'),
        ('model-join-args', "SELECT t.a, m.p FROM int1.tbl1 AS t JOIN mindsdb.pred AS m WHERE t.a = 1 AND m.x = 2"),
        ('model-join-not', "SELECT t.a, m.p FROM int1.tbl1 AS t JOIN mindsdb.pred AS m WHERE NOT m.x = 2"),
        ('model-join-or', "SELECT t.a, m.p FROM int1.tbl1 AS t JOIN mindsdb.pred AS m WHERE t.a = 1 OR m.x = 2"),
        ('model-join-using', "SELECT t.a, m.p FROM int1.tbl1 AS t JOIN mindsdb.pred AS m USING partition_size = 10, Foo = 'Bar'"),
        ('model-join-table2', 'SELECT * FROM int1.tbl1 AS t JOIN mindsdb.pred AS m JOIN int2.tbl2 AS t2 ON t2.id = t.id'),
        ('model-join-table2-part', 'SELECT * FROM int1.tbl1 AS t JOIN mindsdb.pred AS m JOIN int2.tbl2 AS t2 ON t2.id = t.id USING partition_size = 10'),
    ]
    # partitioned model joins: every join kind x model on either side x a trailing table / second model
    for jk in ('JOIN', 'INNER JOIN', 'LEFT JOIN', 'RIGHT JOIN', 'FULL JOIN', 'FULL OUTER JOIN', 'LEFT OUTER JOIN'):
        tag = jk.replace(' ', '_').lower()
        q.append((f'part-{tag}', f'SELECT * FROM int1.tbl1 AS t {jk} mindsdb.pred AS m USING partition_size = 10'))
        q.append((f'part-{tag}-where', f'SELECT t.a, m.p FROM int1.tbl1 AS t {jk} mindsdb.pred AS m WHERE t.a = 1 AND m.x = 2 USING partition_size = 10'))
        q.append((f'part-{tag}-then-table', f'SELECT * FROM int1.tbl1 AS t {jk} mindsdb.pred AS m JOIN int2.tbl2 AS t2 ON t2.id = t.id USING partition_size = 10'))
        q.append((f'part-table-then-{tag}', f'SELECT * FROM int1.tbl1 AS t JOIN int2.tbl2 AS t2 ON t2.id = t.id {jk} mindsdb.pred AS m USING partition_size = 10'))
        q.append((f'part-{tag}-two-models', f'SELECT * FROM int1.tbl1 AS t {jk} mindsdb.pred AS m {jk} proj.pred2 AS m2 USING partition_size = 5'))
        # a plain table fetched while the map-reduce container is still open: no ON clause, a non-equality ON, an ON against model columns only
        q.append((f'part-{tag}-then-table-noon', f'SELECT * FROM int1.tbl1 AS t {jk} mindsdb.pred AS m JOIN int2.tbl2 AS t2 USING partition_size = 10'))
        q.append((f'part-{tag}-then-table-gt', f'SELECT * FROM int1.tbl1 AS t {jk} mindsdb.pred AS m JOIN int2.tbl2 AS t2 ON t2.id > t.id USING partition_size = 10'))
        q.append((f'part-{tag}-then-table-model-col', f'SELECT * FROM int1.tbl1 AS t {jk} mindsdb.pred AS m JOIN int2.tbl2 AS t2 ON m.p = t2.id USING partition_size = 10'))
        q.append((f'part-{tag}-two-models-then-table', f'SELECT * FROM int1.tbl1 AS t {jk} mindsdb.pred AS m {jk} proj.pred2 AS m2 LEFT JOIN int2.tbl2 AS t2 ON t2.a = 1 USING partition_size = 5'))
        q.append((f'part-{tag}-then-subselect', f'SELECT * FROM int1.tbl1 AS t {jk} mindsdb.pred AS m JOIN (SELECT * FROM int2.tbl2 WHERE a = 1) AS s USING partition_size = 10'))
    # join conditions of every shape between two data tables (and before a model): the planner may use or ignore them, never crash on them
    for i, on in enumerate(['t2.name = lower(t1.name)', 'lower(t2.name) = t1.name', 't2.id = t1.id + 1', 't2.id = CAST(t1.id AS int)', 't2.id = id2', 'id1 = t2.id', 't2.id > t1.id',
                            't2.id = t1.id AND t2.a = 5', 't2.a = 5', '1 = 1', 't2.id = t1.id OR t2.a = 1', 'NOT t2.id = t1.id', 't2.id IN (1, 2)', 't2.id = (SELECT max(id) FROM int1.tbl3)',
                            't2.id BETWEEN t1.a AND t1.b', 't2.id IS NULL', "t2.name = concat('x', t1.name)", 't2.id = - t1.id', 't2.id = t1.id AND t2.name = upper(t1.name)', 't2.a = @v',
                            't2.id = t3.id', 't2.id = coalesce(t1.id, 0)', 't2.flag = TRUE', 't2.id = NULL']):
        for jk in ('JOIN', 'LEFT JOIN'):
            q.append((f'on-shape-{i}-{jk.split()[0].lower()}', f'SELECT * FROM int1.tbl1 AS t1 {jk} int2.tbl2 AS t2 ON {on}'))
        q.append((f'on-shape-{i}-model', f'SELECT * FROM int1.tbl1 AS t1 JOIN int2.tbl2 AS t2 ON {on} JOIN mindsdb.pred AS m'))
    q += [
        ('model-version', 'SELECT * FROM int1.tbl1 AS t JOIN mindsdb.pred.3 AS m'),
        ('model-project', 'SELECT * FROM int1.tbl1 AS t JOIN proj.pred2 AS m'),
        ('two-models', 'SELECT * FROM int1.tbl1 AS t JOIN mindsdb.pred AS m JOIN proj.pred2 AS m2'),
        ('ts-gt', "SELECT * FROM int1.tbl1 AS t JOIN mindsdb.tp AS m WHERE t.t > '2020-01-01' AND t.g = 1"),
        ('ts-latest', "SELECT * FROM int1.tbl1 AS t JOIN mindsdb.tp AS m WHERE t.t > LATEST"),
        ('ts-between', "SELECT * FROM int1.tbl1 AS t JOIN mindsdb.tp AS m WHERE t.t BETWEEN '2020-01-01' AND '2020-02-01'"),
        ('ts-limit', "SELECT * FROM int1.tbl1 AS t JOIN mindsdb.tp AS m WHERE t.t > LATEST LIMIT 3"),
        ('ts-none', "SELECT * FROM int1.tbl1 AS t JOIN mindsdb.tp AS m"),
    ]
    for mname in ('tpnone', 'tpempty', 'tptwo'):
        q += [
            (f'ts-{mname}-gt', f"SELECT * FROM int1.tbl1 AS t JOIN mindsdb.{mname} AS m WHERE t.t > '2020-01-01'"),
            (f'ts-{mname}-latest', f"SELECT * FROM int1.tbl1 AS t JOIN mindsdb.{mname} AS m WHERE t.t > LATEST LIMIT 3"),
            (f'ts-{mname}-eq-latest', f"SELECT * FROM int1.tbl1 AS t JOIN mindsdb.{mname} AS m WHERE t.t = LATEST AND t.g = 1"),
            (f'ts-{mname}-none', f"SELECT * FROM int1.tbl1 AS t JOIN mindsdb.{mname} AS m"),
            (f'ts-{mname}-model-left', f"SELECT * FROM mindsdb.{mname} AS m JOIN int1.tbl1 AS t WHERE t.t BETWEEN '2020-01-01' AND '2020-02-01'"),
            (f'ts-{mname}-create', f"CREATE TABLE int2.out1 (SELECT * FROM int1.tbl1 AS t JOIN mindsdb.{mname} AS m WHERE t.t > LATEST)"),
        ]
    # comparisons whose other operand(s) are not constants: nothing of them may be pushed into the fetch of one table
    for i, cond in enumerate(('t.a BETWEEN 1 AND m.hi', 't.a BETWEEN m.lo AND 5', 't.a BETWEEN 1 AND t2.hi', 't.a BETWEEN t2.lo AND t2.hi', 't.a = t2.b + 1', 't.a IN (1, t2.b)', 't.a > m.x', 't.a BETWEEN 1 AND 5')):
        q.append((f'nonconst-{i}-model', f'SELECT * FROM int1.tbl1 AS t JOIN mindsdb.pred AS m WHERE {cond.replace("t2.", "m.")} AND t.b = 2'))
        q.append((f'nonconst-{i}-join', f'SELECT * FROM int1.tbl1 AS t JOIN int2.tbl2 AS t2 ON t.id = t2.id WHERE {cond.replace("m.", "t2.")} AND t.b = 2'))
    # the "dbt form": the data side of a time-series join written as a sub-select (own WHERE / LIMIT), alone and below INSERT / CREATE TABLE;
    # data table in an integration, unqualified (takes the target's integration), or in a project
    for mname in ('tp', 'tpnone'):
        for i, (inner_lim, outer_lim) in enumerate((('', ''), ('', ' LIMIT 5'), (' LIMIT 50', ' LIMIT 5'), (' LIMIT 3', ' LIMIT 5'), (' LIMIT 50', ''))):
            q.append((f'dbt-{mname}-lim{i}', f"SELECT * FROM (SELECT * FROM int1.tbl1 AS ta WHERE ta.g = 1{inner_lim}) AS t1 JOIN mindsdb.{mname} AS tb WHERE t1.t > LATEST{outer_lim}"))
        q += [
            (f'dbt-{mname}-insert', f"INSERT INTO int2.out1 (SELECT * FROM (SELECT * FROM int1.tbl1 AS ta WHERE ta.g = 1) AS t1 JOIN mindsdb.{mname} AS tb WHERE t1.t > LATEST)"),
            (f'dbt-{mname}-insert-unq', f"INSERT INTO int2.out1 (SELECT * FROM (SELECT * FROM tbl1 AS ta WHERE ta.g = 1) AS t1 JOIN mindsdb.{mname} AS tb WHERE t1.t > LATEST)"),
            (f'dbt-{mname}-insert-proj', f"INSERT INTO int2.out1 (SELECT * FROM (SELECT * FROM proj.view1 AS ta WHERE ta.g = 1) AS t1 JOIN mindsdb.{mname} AS tb WHERE t1.t > LATEST)"),
            (f'dbt-{mname}-create-proj', f"CREATE TABLE int2.out1 (SELECT * FROM (SELECT * FROM mindsdb.view1 AS ta) AS t1 JOIN mindsdb.{mname} AS tb WHERE t1.t > LATEST LIMIT 4)"),
            (f'dbt-{mname}-gt', f"SELECT * FROM (SELECT * FROM int1.tbl1 AS ta) AS t1 JOIN mindsdb.{mname} AS tb WHERE t1.t > '2020-01-01' LIMIT 2"),
        ]
    # round 7: ORDER BY items that are not plain columns together with LIMIT (the LIMIT push-down inspects every ORDER BY item), on table joins,
    # model joins, partitioned model joins and below INSERT / CREATE TABLE
    orders = ['t1.a + 1', 'lower(t1.a)', '1', 't1.a DESC, t2.b', 'coalesce(t1.a, 0), t1.b', '- t1.a', "'x'", 't1.a IS NULL', 'CAST(t1.a AS int)', 'a']
    for i, ob in enumerate(orders):
        q += [
            (f'order-expr-{i}-join', f'SELECT * FROM int1.tbl1 AS t1 JOIN int2.tbl2 AS t2 ON t1.id = t2.id ORDER BY {ob} LIMIT 5'),
            (f'order-expr-{i}-left', f'SELECT * FROM int1.tbl1 AS t1 LEFT JOIN int2.tbl2 AS t2 ON t1.id = t2.id WHERE t1.a = 1 ORDER BY {ob} LIMIT 5 OFFSET 1'),
            (f'order-expr-{i}-model', f'SELECT * FROM int1.tbl1 AS t1 JOIN mindsdb.pred AS t2 ORDER BY {ob} LIMIT 5'),
            (f'order-expr-{i}-model-part', f'SELECT * FROM int1.tbl1 AS t1 JOIN mindsdb.pred AS t2 ORDER BY {ob} LIMIT 5 USING partition_size = 10'),
            (f'order-expr-{i}-insert', f'INSERT INTO int2.out1 (SELECT * FROM int1.tbl1 AS t1 JOIN mindsdb.pred AS t2 ORDER BY {ob} LIMIT 5)'),
            (f'order-expr-{i}-nolimit', f'SELECT * FROM int1.tbl1 AS t1 JOIN int2.tbl2 AS t2 ON t1.id = t2.id ORDER BY {ob}'),
        ]
    # every predicate form on a model column / a table column as a top-level conjunct of a model join (alone, with more tables, partitioned, below CREATE TABLE)
    preds = ['{c} BETWEEN 1 AND 2', '{c} NOT BETWEEN 1 AND 2', '{c} IN (1, 2)', '{c} NOT IN (1, 2)', '{c} IS NULL', '{c} IS NOT NULL', "{c} LIKE 'a%'", "{c} NOT LIKE 'a%'", 'NOT {c} = 1',
             '{c} > 1', '1 < {c}', '{c} != 1', '{c} = t.a', '{c} = 1 + 1', '{c} = lower(\'A\')', '{c} = (SELECT max(c) FROM int2.tbl2)', '- {c} = 1', '{c}', '{c} = @v', '{c} = NULL', '{c} = TRUE']
    for i, pr in enumerate(preds):
        for who, col in (('model', 'm.x'), ('table', 't.b')):
            c = pr.format(c=col)
            q += [
                (f'pred-form-{i}-{who}', f'SELECT * FROM int1.tbl1 AS t JOIN mindsdb.pred AS m WHERE t.a = 1 AND {c}'),
                (f'pred-form-{i}-{who}-table2', f'SELECT * FROM int1.tbl1 AS t JOIN mindsdb.pred AS m JOIN int2.tbl2 AS t2 ON t2.id = t.id WHERE {c} AND t2.c = 3'),
                (f'pred-form-{i}-{who}-part', f'SELECT * FROM int1.tbl1 AS t JOIN mindsdb.pred AS m WHERE {c} USING partition_size = 10'),
                (f'pred-form-{i}-{who}-create', f'CREATE TABLE int2.out1 (SELECT * FROM int1.tbl1 AS t JOIN mindsdb.pred AS m WHERE {c})'),
            ]
    # names with more parts than the planner consumes: a schema that is spelled like another database, versions on every kind of model
    q += [
        ('three-part-schema-like-db', 'SELECT * FROM int1.int2.tbl AS t1 JOIN int2.tbl2 AS t2 ON t1.id = t2.id'),
        ('three-part-schema-like-db-upper', 'SELECT * FROM INT1.int2.tbl AS t1 JOIN int2.tbl2 AS t2 ON t1.id = t2.id'),
        ('three-part-schema-like-project', 'SELECT * FROM int1.mindsdb.tbl AS t1 JOIN int2.tbl2 AS t2 ON t1.id = t2.id'),
        ('three-part-schema-like-db-model', 'SELECT * FROM int1.int2.tbl AS t1 JOIN mindsdb.pred AS m'),
        ('three-part-schema-like-db-single', 'SELECT * FROM int1.int2.tbl AS t1 WHERE t1.a = 1'),
        ('three-part-schema-like-db-sub', 'SELECT * FROM int2.tbl2 WHERE a IN (SELECT id FROM int1.int2.tbl)'),
        ('ts-version', "SELECT * FROM int1.tbl1 AS t JOIN mindsdb.tp.7 AS m WHERE t.t > LATEST"),
        ('ts-version-upper', "SELECT * FROM int1.tbl1 AS t JOIN MINDSDB.tp.7 AS m WHERE t.t > '2020-01-01' AND t.g = 1"),
        ('ts-version-short', "SELECT * FROM int1.tbl1 AS t JOIN tp.7 AS m WHERE t.t > LATEST"),
        ('ts-version-dbt', "SELECT * FROM (SELECT * FROM int1.tbl1 AS ta WHERE ta.g = 1) AS t1 JOIN mindsdb.tp.7 AS tb WHERE t1.t > LATEST"),
        ('modelsel-version', 'SELECT * FROM mindsdb.pred.3 WHERE x = 1'),
        ('model-version-two', 'SELECT * FROM int1.tbl1 AS t JOIN mindsdb.pred.3 AS m JOIN proj.pred2.4 AS m2'),
    ]
    # the same single-integration join as the source of INSERT / CREATE TABLE and as a sub-select, written with explicit qualifiers
    for dbn in ('int1', 'INT1'):
        body = f'SELECT {dbn}.orders.id, o2.total FROM {dbn}.orders JOIN {dbn}.items AS o2 ON {dbn}.orders.id = o2.id WHERE {dbn}.orders.total > 10'
        q += [
            (f'single-join-qualified-{dbn}', body),
            (f'single-join-qualified-{dbn}-insert', f'INSERT INTO int2.out1 ({body})'),
            (f'single-join-qualified-{dbn}-insert-same', f'INSERT INTO int1.out1 ({body})'),
            (f'single-join-qualified-{dbn}-create', f'CREATE TABLE int2.out1 ({body})'),
            (f'single-join-qualified-{dbn}-sub', f'SELECT * FROM int2.tbl2 AS t2 JOIN ({body}) AS s ON s.id = t2.id'),
        ]
    # round 8: a bare table name spelled like a database / project; conjuncts that are not comparisons in joins the planner executes itself;
    # the same CTE name defined in two selects of one statement; a schema.table of an integration spelled like project.model
    for nm in ('files', 'int2', 'mindsdb', 'proj', 'INT2'):
        q += [
            (f'bare-name-like-db-{nm}', f'SELECT * FROM {nm} WHERE a = 1'),
            (f'bare-name-like-db-{nm}-sub', f'SELECT * FROM int1.tbl1 WHERE a IN (SELECT id FROM {nm})'),
            (f'bare-name-like-db-{nm}-join', f'SELECT * FROM {nm} AS x JOIN int2.tbl2 AS t2 ON x.id = t2.id'),
            (f'bare-name-like-db-{nm}-union', f'SELECT a FROM {nm} UNION SELECT a FROM int1.tbl1'),
            (f'bare-name-like-db-{nm}-delete', f'DELETE FROM int1.tbl1 WHERE a IN (SELECT id FROM {nm})'),
        ]
    for i, cj in enumerate(('t2.flag', 'TRUE', 'CAST(t2.flag AS bool)', 'NOT t2.flag', 't1.flag', 'coalesce(t2.flag, FALSE)', '1', 'NULL', 't2.a IS NULL', 'EXISTS (SELECT 1 FROM int1.tbl3)', '@v', '(t2.flag)')):
        q += [
            (f'conjunct-form-{i}-join', f'SELECT * FROM int1.tbl1 AS t1 JOIN int2.tbl2 AS t2 ON t1.id = t2.id WHERE t1.a = 1 AND {cj}'),
            (f'conjunct-form-{i}-join-first', f'SELECT * FROM int1.tbl1 AS t1 JOIN int2.tbl2 AS t2 ON t1.id = t2.id WHERE {cj} AND t2.b = 2'),
            (f'conjunct-form-{i}-api', f'SELECT * FROM api1.tbl1 AS t1 JOIN int2.tbl2 AS t2 ON t1.id = t2.id WHERE {cj}'),
            (f'conjunct-form-{i}-model', f'SELECT * FROM int1.tbl1 AS t1 JOIN mindsdb.pred AS t2 WHERE t1.a = 1 AND {cj}'),
            (f'conjunct-form-{i}-model-part', f'SELECT * FROM int1.tbl1 AS t1 JOIN mindsdb.pred AS t2 WHERE {cj} USING partition_size = 10'),
        ]
    q += [
        ('cte-same-name-union', 'WITH c AS (SELECT a FROM int1.tbl1) SELECT a FROM c UNION ALL (WITH c AS (SELECT a FROM int2.tbl2) SELECT a FROM c)'),
        ('cte-same-name-except', 'WITH c AS (SELECT a FROM int1.tbl1) SELECT a FROM c EXCEPT (WITH c AS (SELECT a FROM int2.tbl2) SELECT a FROM c)'),
        ('cte-two-names-union', 'WITH c AS (SELECT a FROM int1.tbl1) SELECT a FROM c UNION ALL (WITH d AS (SELECT a FROM int2.tbl2) SELECT a FROM d)'),
        ('single-join-schema-like-model', 'SELECT * FROM int1.proj.pred2 AS a JOIN int1.tbl2 AS b ON a.id = b.id'),
        ('single-join-schema-like-model-insert', 'INSERT INTO int2.out1 (SELECT * FROM int1.proj.pred2 AS a JOIN int1.tbl2 AS b ON a.id = b.id)'),
        ('single-join-schema-like-model-create', 'CREATE TABLE int2.out1 (SELECT * FROM int1.mindsdb.pred AS a JOIN int1.tbl2 AS b ON a.id = b.id)'),
        ('single-join-schema-like-model-union', 'SELECT a.id FROM int1.proj.pred2 AS a JOIN int1.tbl2 AS b ON a.id = b.id UNION SELECT id FROM int2.tbl2'),
    ]
    return q


def generated_scenarios(tier='quick'):
    from mindsdb_sql import parse_sql
    out = []
    for cname in catalogs():
        for qname, sql in generated_queries(tier):
            out.append({'source': f'gen:{cname}:{qname}', 'sql': sql, 'catalog': cname})
    return out


def make_planner_kwargs(sc):
    if 'catalog' in sc:
        return catalogs()[sc['catalog']]
    return copy.deepcopy(sc['kwargs'])


def run_scenario(sc):
    """returns (query tree, planner, plan or None, exception or None)"""
    from mindsdb_sql import parse_sql
    from mindsdb_sql.planner.query_planner import QueryPlanner
    if 'sql' in sc:
        q = parse_sql(sc['sql'], dialect='mindsdb')
    else:
        q = copy.deepcopy(sc['query'])
    kw = make_planner_kwargs(sc)
    pl = QueryPlanner(q, **kw)
    try:
        plan = pl.from_query()
        return q, pl, plan, None, kw
    except Exception as e:
        return q, pl, None, e, kw


def harvested_scenarios():
    """planner calls made by /repo/tests/test_planner, recorded by vlib.monitor_plugin in a subprocess"""
    if 'harvest' in _cache:
        return _cache['harvest']
    out_path = tempfile.mktemp(prefix='vharvest_', suffix='.pkl')
    env = dict(os.environ, VERIF_HARVEST=out_path, PYTHONDONTWRITEBYTECODE='1',
               PYTHONPATH=os.pathsep.join([VERIF, REPO_ROOT] + ([os.environ['PYTHONPATH']] if os.environ.get('PYTHONPATH') else [])))
    tests = os.path.join(REPO_ROOT, 'tests', 'test_planner')
    res = []
    if os.path.isdir(tests):
        subprocess.run([sys.executable, '-m', 'pytest', '-q', '-x', '-p', 'vlib.monitor_plugin', '-p', 'no:cacheprovider', '--no-header', tests],
                       cwd=REPO_ROOT, env=env, capture_output=True, text=True, timeout=900)
        if os.path.exists(out_path):
            with open(out_path, 'rb') as f:
                try:
                    res = pickle.load(f)
                except Exception:
                    res = []
            os.unlink(out_path)
    _cache['harvest'] = res
    return res


def all_scenarios(tier='quick'):
    sc = generated_scenarios(tier)
    hv = harvested_scenarios()
    if tier == 'quick':
        hv = hv[::2]
    return sc + hv


def deep_results(obj, _seen=None, depth=0):
    """every Result object reachable from a plan step (fields, embedded queries, containers, sub-steps)"""
    from mindsdb_sql.planner.step_result import Result
    from mindsdb_sql.parser.ast.base import ASTNode
    from mindsdb_sql.planner.steps import PlanStep
    if _seen is None:
        _seen = set()
    if id(obj) in _seen or depth > 80:
        return
    if isinstance(obj, Result):
        yield obj
        return
    if isinstance(obj, (str, int, float, bool, type(None))):
        return
    _seen.add(id(obj))
    if isinstance(obj, (list, tuple, set)):
        for x in obj:
            yield from deep_results(x, _seen, depth + 1)
    elif isinstance(obj, dict):
        for x in obj.values():
            yield from deep_results(x, _seen, depth + 1)
    elif hasattr(obj, '__dict__'):
        for k, x in vars(obj).items():
            yield from deep_results(x, _seen, depth + 1)


# ------------------------------------------------------------------ histories on one planner object
REUSE_HISTORIES = [
    ['WITH recent AS (SELECT * FROM int1.tbl1 WHERE a > 1) SELECT * FROM recent r JOIN int2.tbl2 t ON r.id = t.id', 'SELECT * FROM recent WHERE id > 5',
     'SELECT * FROM recent r JOIN int2.tbl2 t ON r.id = t.id', 'SELECT x FROM recent WHERE x > 1'],
    ['WITH t AS (SELECT a FROM int1.tbl1) SELECT * FROM t JOIN int2.tbl2 AS t2 ON t.a = t2.a', 'SELECT x FROM t WHERE x > 1', 'SELECT a FROM int1.t'],
    ['SELECT * FROM int1.tbl1 AS t JOIN mindsdb.pred AS m USING partition_size = 10', 'SELECT * FROM int1.tbl1 AS t JOIN int2.tbl2 AS t2 ON t.id = t2.id', 'SELECT * FROM int1.tbl1 AS t JOIN mindsdb.pred AS m'],
    ['SELECT * FROM int1.tbl1 t1 JOIN int2.tbl2 t2 ON t1.id = t2.id WHERE t1.a = 1 LIMIT 3', 'SELECT * FROM int1.tbl1 t1 JOIN int2.tbl2 t2 ON t1.id = t2.id', 'SELECT a FROM int1.tbl1 WHERE b = 1'],
    ["SELECT * FROM int1.tbl1 AS t JOIN mindsdb.tp AS m WHERE t.t > LATEST AND t.g = 1", "SELECT * FROM int1.tbl1 AS t JOIN mindsdb.tp AS m WHERE t.t > '2020-01-01' AND t.g = 1",
     "SELECT * FROM int1.tbl1 AS t JOIN mindsdb.tp AS m WHERE t.t > LATEST AND t.g = 1"],
    ['SELECT * FROM int1.tbl1 t1 JOIN int2.tbl2 t2 ON t1.id = t2.id', 'SELECT * FROM (SELECT * FROM int1.tbl1 WHERE a IN (SELECT id FROM int2.tbl3)) AS s JOIN int2.tbl2 AS t2 ON s.id = t2.id'],
    ['SELECT * FROM mindsdb.pred.3 WHERE x = 1', 'SELECT * FROM mindsdb.pred WHERE x = 1', 'SELECT * FROM int1.tbl1 AS t JOIN mindsdb.pred AS m'],
]


def reuse_history_problems():
    """every statement of a sequence planned with ONE QueryPlanner (planner.from_query(stmt), the documented re-use) must get the plan it gets from a
    fresh planner over a fresh copy of the catalog; returns [(sql, description)]"""
    from mindsdb_sql import parse_sql
    from mindsdb_sql.planner.query_planner import QueryPlanner
    out = []
    for seq in REUSE_HISTORIES:
        try:
            planner = QueryPlanner(parse_sql('select 1'), **copy.deepcopy(catalogs()['names']))
        except Exception:
            continue
        for i, sql in enumerate(seq):
            try:
                fresh = QueryPlanner(parse_sql(sql), **copy.deepcopy(catalogs()['names'])).from_query()
                want = [repr(s_) for s_ in fresh.steps]
            except Exception as e:
                want = f'{type(e).__name__}'
            try:
                got = [repr(s_) for s_ in planner.from_query(parse_sql(sql)).steps]
            except Exception as e:
                got = f'{type(e).__name__}'
            if got != want:
                out.append((sql, f'planned on a planner that planned {seq[:i]} before: {str(got)[:200]}; planned alone: {str(want)[:200]}'))
    return out


def all_fetch_steps(steps):
    """fetch steps of a plan, including those nested in MultipleSteps / map-reduce containers"""
    for s_ in steps:
        if type(s_).__name__ == 'FetchDataframeStep':
            yield s_
        sub = getattr(s_, 'steps', None) if type(s_).__name__ == 'MultipleSteps' else (getattr(s_, 'step', None) if type(s_).__name__ == 'MapReduceStep' else None)
        if sub is not None:
            yield from all_fetch_steps(sub if isinstance(sub, list) else [sub])


def unstripped_qualifiers(plan, known_dbs=()):
    """identifiers of pushed queries that still carry the name of the integration the query is sent to: the integration does not know itself by that name
    (`SELECT int1.t.a FROM int1.t` sent to int1).  -> list of (integration, identifier text, query text)"""
    from mindsdb_sql.parser import ast
    from . import corpus
    out = []
    for st in all_fetch_steps(plan.steps):
        if st.query is None or not isinstance(st.query, ast.ASTNode):
            continue
        me = str(st.integration).lower()
        for _p, n in corpus.walk_nodes(st.query):
            if isinstance(n, ast.Identifier) and len(n.parts) > 1 and isinstance(n.parts[0], str) and n.parts[0].lower() == me:
                out.append((st.integration, n.to_string(), str(st.query)))
    return out
