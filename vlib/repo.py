"""Access to the code under verification: always the *current* source under $REPO_ROOT.

Nothing is cached on disk; function bodies are re-read with ast.parse on every run and the
real modules are imported from $REPO_ROOT (which runs SLY's table generator on the current
grammar)."""
import ast, importlib, os, sys

sys.dont_write_bytecode = True
from .core import REPO_ROOT, CheckerError

if REPO_ROOT not in sys.path[:1]:
    sys.path.insert(0, REPO_ROOT)

_ast_cache = {}


def module_path(modname):
    p = os.path.join(REPO_ROOT, *modname.split('.'))
    if os.path.isdir(p):
        return os.path.join(p, '__init__.py')
    return p + '.py'


def module_ast(modname):
    if modname not in _ast_cache:
        path = module_path(modname)
        with open(path, encoding='utf-8') as f:
            src = f.read()
        import warnings
        with warnings.catch_warnings():
            warnings.simplefilter('ignore')
            _ast_cache[modname] = (ast.parse(src, filename=path), src)
    return _ast_cache[modname][0]


def module_src(modname):
    module_ast(modname)
    return _ast_cache[modname][1]


def import_module(modname):
    import warnings
    with warnings.catch_warnings():
        warnings.simplefilter('ignore')
        m = importlib.import_module(modname)
    f = getattr(m, '__file__', '') or ''
    if not os.path.realpath(f).startswith(os.path.realpath(REPO_ROOT)):
        raise CheckerError(f'{modname} imported from {f}, not from {REPO_ROOT}')
    return m


def find_class(modname, clsname):
    for n in module_ast(modname).body:
        if isinstance(n, ast.ClassDef) and n.name == clsname:
            return n
    return None


def find_functions(modname, qual):
    """qual = 'func' | 'Class.func' | 'Class.func.inner'; returns all defs with that name (SLY
    grammars define the same method name many times), in source order."""
    parts = qual.split('.')
    scopes = [module_ast(modname)]
    for i, name in enumerate(parts):
        nxt = []
        for sc in scopes:
            body = sc.body
            for n in _walk_defs(body) if i > 0 and isinstance(sc, (ast.FunctionDef,)) else body:
                if isinstance(n, (ast.FunctionDef, ast.ClassDef)) and n.name == name:
                    nxt.append(n)
        scopes = nxt
    return [s for s in scopes if isinstance(s, ast.FunctionDef)]


def _walk_defs(body):
    for n in body:
        for m in ast.walk(n):
            if isinstance(m, (ast.FunctionDef, ast.ClassDef)):
                yield m


def find_function(modname, qual, ordinal=None):
    fs = find_functions(modname, qual)
    if not fs:
        return None
    if ordinal is None:
        if len(fs) > 1:
            raise CheckerError(f'{modname}:{qual} is ambiguous ({len(fs)} definitions)')
        return fs[0]
    return fs[ordinal] if ordinal < len(fs) else None


def src_segment(modname, node):
    return ast.get_source_segment(module_src(modname), node)


def all_repo_modules(prefixes=('mindsdb_sql', 'sly')):
    out = []
    for pre in prefixes:
        base = os.path.join(REPO_ROOT, pre)
        for d, _, files in os.walk(base):
            for fn in files:
                if fn.endswith('.py'):
                    rel = os.path.relpath(os.path.join(d, fn), REPO_ROOT)[:-3].replace(os.sep, '.')
                    if rel.endswith('.__init__'):
                        rel = rel[:-9]
                    out.append(rel)
    return sorted(out)
