"""pysym public API used by the sidecar contracts."""
import os
import ast, sys, time
import z3
from .values import *
from .executor import Executor, Env, ExcVal, NoneType, SuperProxy
from . import models, loops
from .. import repo
from ..core import PROVED, FAILED, UNDECIDED


class Verdict:
    def __init__(self, status, detail='', seconds=0.0, cex=None, paths=0):
        self.status, self.detail, self.seconds, self.cex, self.paths = status, detail, seconds, cex, paths

    def __repr__(self):
        return f'{self.status}: {self.detail}'


def closure_of(modname, qual=None, node=None, ordinal=None):
    m = repo.import_module(modname)
    if node is None:
        node = repo.find_function(modname, qual, ordinal)
        if node is None:
            return None
    clo = Closure(node, Env(m), m, qual or node.name)
    if qual and '.' in qual:
        K = getattr(m, qual.split('.')[0], None)
        if isinstance(K, type):
            clo.defcls = K
    return clo


def explore_function(modname, qual, make_args, ex=None, node=None, ordinal=None, setup=None):
    """symbolically executes the current source of modname:qual on the arguments built by make_args(ex);
    returns (outcomes, executor).  Raises Unsupported / PathLimit when outside the engine's reach."""
    ex = ex or Executor()
    clo = closure_of(modname, qual, node, ordinal)
    if clo is None:
        raise Unsupported(f'function {modname}:{qual} not found (renamed or removed: contract needs review)')
    clo.no_stub = True
    if ex.self_class is None and qual and '.' in qual:
        K = getattr(clo.module, qual.split('.')[0], None)
        if isinstance(K, type):
            ex.self_class = K

    def run(ex):
        if setup:
            setup(ex)
        args, kwargs = make_args(ex)
        return ex.call_closure(clo, args, kwargs)
    return ex.explore(run), ex


def verify(modname, qual, make_args, post, ex=None, node=None, ordinal=None, setup=None):
    """post(ex, outcome) -> None | str(failure description).  All paths must satisfy post."""
    t0 = time.time()
    try:
        outs, ex = explore_function(modname, qual, make_args, ex, node, ordinal, setup)
    except (Unsupported, PathLimit) as e:
        return Verdict(UNDECIDED, f'{type(e).__name__}: {e}', time.time() - t0)
    if not outs:
        return Verdict(UNDECIDED, 'no feasible path (vacuous precondition?)', time.time() - t0)
    try:
        for o in outs:
            r = post(ex, o)
            if r:
                return Verdict(FAILED, f'{r} [path: {"; ".join(o.choices[-6:])}]', time.time() - t0, cex={'path': o.choices, 'outcome': repr(o)[:300]}, paths=len(outs))
    except (Unsupported, PathLimit) as e:
        return Verdict(UNDECIDED, f'{type(e).__name__} in postcondition: {e}', time.time() - t0)
    v = Verdict(PROVED, f'{len(outs)} path(s), {ex.n_queries} solver queries', time.time() - t0, paths=len(outs))
    v.returns = sum(1 for o in outs if o.kind == 'return')          # reachability cover: how many explored paths reach a return
    if v.returns == 0 and os.environ.get('VERIF_AUDIT_VACUITY'):
        # maintainer audit: verdicts in which no explored path returns (legitimate for "raises X on every path" contracts, vacuous otherwise)
        with open(os.environ['VERIF_AUDIT_VACUITY'], 'a') as fh:
            fh.write(f'{modname}:{qual or getattr(node, "name", "?")} paths={len(outs)} raises={sorted({getattr(o.value, "__name__", str(o.value)) for o in outs})}\n')
    return v


# ------------------------------------------------------------------ SLY helpers
def sly_rules_of(funcdef):
    """grammar rule strings of an action method decorated with @_('...', ...)"""
    rules = []
    for d in funcdef.decorator_list:
        if isinstance(d, ast.Call) and isinstance(d.func, ast.Name) and d.func.id == '_':
            for a in d.args:
                if isinstance(a, ast.Constant) and isinstance(a.value, str):
                    rules.append(' '.join(a.value.split()))
                elif isinstance(a, ast.Starred):
                    rules.append('*' + ast.unparse(a.value))
    return rules


class PSlice:
    """stand-in for sly's YaccProduction `p` inside a grammar action: positional and named access to the
    values of the right-hand side symbols (names get numeric suffixes when a symbol occurs more than once)."""

    def __init__(self, rule, values, slice_syms=None):
        self.syms = rule.split()
        if '%prec' in self.syms:
            self.syms = self.syms[:self.syms.index('%prec')]
        self.values = list(values)
        self.slice_syms = slice_syms
        counts = {}
        for s in self.syms:
            counts[s] = counts.get(s, 0) + 1
        self.names = {}
        seen = {}
        for i, s in enumerate(self.syms):
            if counts[s] > 1:
                k = seen.get(s, 0)
                self.names[f'{s}{k}'] = i
                seen[s] = k + 1
            else:
                self.names[s] = i


def pslice_stubs(ex):
    """teach the executor how `p[i]`, `p.name`, `hasattr(p, name)`, `p._slice` behave on a PSlice"""
    def field_oracle(ex_, obj, attr):
        ps = getattr(obj, 'pslice', None)
        if ps is None:
            raise KeyError(attr)
        if attr in ps.names:
            return ps.values[ps.names[attr]]
        if attr == '_slice':
            if ps.slice_syms is None:
                raise Unsupported('p._slice not described')
            return ps.slice_syms
        raise KeyError(attr)
    ex.field_oracle = field_oracle

    def getitem(ex_, obj, args, kwargs):
        ps = getattr(obj, 'pslice', None)
        if ps is None:
            raise Unsupported(f'subscript of {obj}')
        i = args[0]
        if not isinstance(i, int):
            raise Unsupported('symbolic index into production slice')
        n = len(ps.values)
        if i >= n or i < -n:
            raise SymRaise(IndexError, ('production index out of range',))
        return ps.values[i]
    ex.method_stubs['__getitem__'] = getitem


def make_p(ex, rule, values, slice_syms=None):
    p = SymObj(None, 'p', prov='param')
    p.known_not_none = True
    p.pslice = PSlice(rule, values, slice_syms)
    p.closed = True     # attributes not in the rule are absent (hasattr -> False, getattr -> AttributeError)
    return p


def check_paren_action(modname, funcdef):
    """C03.paren: the `LPAREN expr RPAREN` action returns p.expr itself; if it is an ASTNode its `parentheses`
    field is True afterwards and no other field of it was written."""
    from mindsdb_sql.parser.ast.base import ASTNode

    def mk(kind):
        def make_args(ex):
            pslice_stubs(ex)
            if kind == 'node':
                operand = SymObj({ASTNode}, 'operand', prov='param')
                operand.subclass_ok = True
                operand.fields['parentheses'] = False
            else:
                operand = SymObj({str}, 'operand', prov='param')     # a non-node value (e.g. a plain string)
            ex.path_state['operand'] = operand
            lp = SymObj(None, 'LPAREN', prov='param')
            rp = SymObj(None, 'RPAREN', prov='param')
            p = make_p(ex, 'LPAREN expr RPAREN', [lp, operand, rp])
            selfo = SymObj(None, 'self', prov='param')
            selfo.known_not_none = True
            try:
                # helper methods extracted from the action are the real ones of the parser class that defines it
                import importlib
                m_ = importlib.import_module(modname)
                for k_ in vars(m_).values():
                    if isinstance(k_, type) and k_.__module__ == modname and any(getattr(v_, '__code__', None) is not None and v_.__name__ == funcdef.name for v_ in vars(k_).values() if callable(v_)):
                        selfo.self_class = k_
                        break
            except Exception:
                pass
            return [selfo, p], {}
        return make_args

    def post_node(ex, o):
        if o.kind != 'return':
            return f'action raises {o.value.__name__}'
        if o.value is not o.state['operand']:
            return f'result is {o.value!r}, not the operand'
        if o.state['operand'].fields.get('parentheses') is not True:
            return f'operand.parentheses is {o.state['operand'].fields.get("parentheses")!r} after the action, expected True'
        for (obj, attr, old, new, kind) in o.writes:
            if obj is o.state['operand'] and attr != 'parentheses':
                return f'action also writes operand.{attr}'
        return None

    def post_other(ex, o):
        if o.kind != 'return':
            return f'action raises {o.value.__name__} on a non-node operand'
        if o.value is not o.state['operand']:
            return 'result is not the operand'
        return None
    v1 = verify(modname, None, mk('node'), post_node, node=funcdef)
    if v1.status != PROVED:
        return v1
    v2 = verify(modname, None, mk('other'), post_other, node=funcdef)
    if v2.status != PROVED:
        return v2
    return Verdict(PROVED, f'{v1.paths + v2.paths} path(s)', v1.seconds + v2.seconds)
