"""E1 pysym: symbolic executor for a Python subset over the real source of $REPO_ROOT.

Path exploration is by re-execution under a decision trace (no state copying); loops over sequences of
unknown length are summarised by executing the body once on a fresh symbolic element (uniform-iteration
summary, checked shape).  Anything outside the supported subset raises Unsupported -> UNDECIDED."""
import ast, builtins, inspect, sys, time, types
import z3
from .values import *
from .. import repo

NoneType = type(None)


def cvc5_check(smt2, timeout_s=30):
    import subprocess, tempfile, os
    if not smt2 or not os.path.exists('/usr/bin/cvc5'):
        return 'unknown'
    with tempfile.NamedTemporaryFile('w', suffix='.smt2', delete=False) as f:
        f.write('(set-logic ALL)\n' + smt2.replace('(set-logic ALL)', ''))
        path = f.name
    try:
        r = subprocess.run(['/usr/bin/cvc5', '--strings-exp', '--lang=smt2', f'--tlimit={timeout_s * 1000}', path], capture_output=True, text=True, timeout=timeout_s + 5)
        out = r.stdout.strip().splitlines()
        return out[0] if out and out[0] in ('sat', 'unsat') else 'unknown'
    except Exception:
        return 'unknown'
    finally:
        os.unlink(path)


class ReturnSig(Exception):
    def __init__(self, v):
        self.v = v


class BreakSig(Exception):
    pass


class ContinueSig(Exception):
    pass


class ExcVal:
    """an exception instance of the analysed program"""

    def __init__(self, cls, args):
        self.cls, self.args = cls, args

    def __repr__(self):
        return f'{self.cls.__name__}{self.args!r}'


class SuperProxy:
    def __init__(self, obj, after):
        self.obj, self.after = obj, after


def _is_generator(fn):
    """does the function body (not nested defs / lambdas) contain yield?"""
    stack = list(fn.body) if isinstance(fn.body, list) else []
    while stack:
        n = stack.pop()
        if isinstance(n, (ast.Yield, ast.YieldFrom)):
            return True
        if isinstance(n, (ast.FunctionDef, ast.AsyncFunctionDef, ast.Lambda, ast.ClassDef)):
            continue
        stack.extend(ast.iter_child_nodes(n))
    return False


class Env:
    def __init__(self, module, parent=None, locals_=None):
        self.module, self.parent = module, parent
        self.vars = locals_ if locals_ is not None else {}
        self.nonlocals = set()
        self.globals_decl = set()

    def lookup(self, name):
        e = self
        while e is not None:
            if name in e.vars and name not in e.nonlocals:
                return e.vars[name]
            e = e.parent
        raise KeyError(name)

    def assign(self, name, v):
        if name in self.nonlocals:
            e = self.parent
            while e is not None:
                if name in e.vars:
                    e.vars[name] = v
                    return
                e = e.parent
        self.vars[name] = v


PURE_BUILTINS = {len, isinstance, issubclass, str, int, float, bool, repr, list, dict, tuple, set, frozenset, sorted, min, max,
                 any, all, enumerate, zip, range, map, filter, getattr, hasattr, type, abs, sum, reversed, iter, next, id,
                 callable, ord, chr, print, hash, divmod, round}


class Executor:
    def __init__(self, max_paths=4000, inline_depth=6, solver_timeout_ms=10000):
        self.max_paths = max_paths
        self.inline_depth = inline_depth
        self.stubs = {}              # (module, qualname) -> fn(ex, args, kwargs, call_node)
        self.atoms = None            # when a dict: opaque boolean facts about symbolic strings (regex matches, membership in word sets, str predicates) become fresh
                                     # Bool atoms recorded here as id -> (description, argument); the caller interprets path conditions over them
        self.self_class = None       # class defining the method under contract (fallback for members of an untyped `self`)
        self.recursion_ok = {}       # substring of a qualname -> max depth: structural recursion over a concrete (finite) argument graph is inlined
        self.method_stubs = {}       # attr name -> fn(ex, self_obj, args, kwargs)  (for opaque receivers)
        self.field_oracle = None     # fn(ex, obj, attr) -> value | raise KeyError
        self.solver = z3.Solver()
        self.solver.set('timeout', solver_timeout_ms)
        self.solver_time = 0.0
        self.n_queries = 0
        self._fresh = 0
        self.reset_path([])
        self.pending = []
        self.axioms = []

    # ------------------------------------------------------------------ path state
    def reset_path(self, trace):
        self.trace = list(trace)
        self.pos = 0
        self.pc = []
        self.log = []
        self.writes = []
        self.undo = []
        self.choices = []
        self.stack = []
        self._fresh = 0
        self.fresh_ids = set()
        self.param_ids = {}
        self.path_state = {}
        SymObj._n = 0

    def fresh_name(self, base):
        self._fresh += 1
        return f'{base}#{self._fresh}'

    def choose(self, n, label, names=None):
        """pick one of n alternatives according to the decision trace; schedule the others"""
        if self.pos < len(self.trace):
            k = self.trace[self.pos]
        else:
            if not getattr(self, 'exploring', False) and n > 1:
                raise Unsupported(f'fork outside path exploration ({label}): postconditions must not branch')
            k = 0
            self.trace.append(0)
            if not self.in_summary_probe:
                for alt in range(1, n):
                    self.pending.append(self.trace[:self.pos] + [alt])
            else:
                for alt in range(1, n):
                    self.probe_pending.append(self.trace[:self.pos] + [alt])
        self.pos += 1
        self.choices.append(f'{label}={names[k] if names else k}')
        return k

    in_summary_probe = False
    probe_pending = None

    # ------------------------------------------------------------------ solver
    def sat(self, *extra):
        t = time.time()
        self.solver.push()
        for a in self.axioms:
            self.solver.add(a)
        for c in self.pc:
            self.solver.add(c)
        for c in extra:
            self.solver.add(c)
        r = self.solver.check()
        self.solver.pop()
        self.solver_time += time.time() - t
        self.n_queries += 1
        if r == z3.unknown:
            raise Unsupported('solver unknown on path feasibility')
        return r == z3.sat

    def valid(self, fact, pc=None):
        """pc => fact ?  returns True / False(model) ; raises Unsupported on unknown"""
        t = time.time()
        self.solver.push()
        for a in self.axioms:
            self.solver.add(a)
        for c in (self.pc if pc is None else pc):
            self.solver.add(c)
        self.solver.add(z3.Not(fact))
        r = self.solver.check()
        m = self.solver.model() if r == z3.sat else None
        smt2 = self.solver.to_smt2() if r == z3.unknown else None
        self.solver.pop()
        self.solver_time += time.time() - t
        self.n_queries += 1
        if r == z3.unknown:
            # portfolio: cvc5 decides many sequence/length queries z3 gives up on (DESIGN 2.2)
            r2 = cvc5_check(smt2)
            self.cvc5_queries = getattr(self, 'cvc5_queries', 0) + 1
            if r2 == 'unsat':
                return True, None
            if r2 == 'sat':
                return False, 'cvc5: sat'
            raise Unsupported('solver unknown on validity query (z3 and cvc5)')
        return (r == z3.unsat), m

    def branch(self, cond, label='if'):
        """cond: z3 Bool. returns python bool, forking if both sides feasible"""
        cond = z3.simplify(cond)
        if z3.is_true(cond):
            return True
        if z3.is_false(cond):
            return False
        can_t = self.sat(cond)
        can_f = self.sat(z3.Not(cond))
        if can_t and can_f:
            k = self.choose(2, f'{label}[{cond}]', ['T', 'F'])
            self.pc.append(cond if k == 0 else z3.Not(cond))
            return k == 0
        if can_t:
            return True
        if can_f:
            return False
        raise Infeasible()

    def assume(self, cond):
        self.pc.append(cond)

    # ------------------------------------------------------------------ heap effects
    def record_write(self, obj, attr, old, new, kind='setattr'):
        self.writes.append((obj, attr, old, new, kind))

    def push_undo(self, fn):
        self.undo.append(fn)

    def setattr(self, obj, attr, v):
        if isinstance(obj, SymObj):
            had = attr in obj.fields
            old = obj.fields.get(attr)
            obj.fields[attr] = v
            obj.frozen_missing.discard(attr)
            self.record_write(obj, attr, old if had else '<absent>', v)

            def un():
                if had:
                    obj.fields[attr] = old
                else:
                    obj.fields.pop(attr, None)
            self.push_undo(un)
        elif isinstance(obj, (types.ModuleType, type)):
            raise Unsupported(f'write to module/class attribute {obj}.{attr}')
        else:
            raise Unsupported(f'setattr on {type(obj).__name__}')

    def mutate_container(self, c, what):
        """call before mutating a concrete list/dict/set in place"""
        if isinstance(c, list):
            old = list(c)
            self.push_undo(lambda: c.__setitem__(slice(None), old))
        elif isinstance(c, dict):
            old = dict(c)

            def un():
                c.clear()
                c.update(old)
            self.push_undo(un)
        elif isinstance(c, set):
            old = set(c)

            def un():
                c.clear()
                c.update(old)
            self.push_undo(un)
        self.record_write(c, what, None, None, kind='mutate')

    def prov(self, v):
        if isinstance(v, (SymObj, SymSeq, SymDictU)):
            return v.prov
        if id(v) in self.param_ids:
            return self.param_ids[id(v)]
        if isinstance(v, (list, dict, set)):
            return 'fresh'
        return 'value'

    def param_container(self, c, label='param'):
        self.param_ids[id(c)] = label
        self._keep = getattr(self, '_keep', [])
        self._keep.append(c)
        return c

    # ------------------------------------------------------------------ exploration driver
    def explore(self, run):
        """run(ex) -> value (or raises SymRaise). returns list[Outcome]"""
        outcomes = []
        self.pending = [[]]
        n = 0
        self.exploring = True
        try:
            return self._explore_loop(run, outcomes)
        finally:
            self.exploring = False

    def _explore_loop(self, run, outcomes):
        n = 0
        while self.pending:
            tr = self.pending.pop()
            n += 1
            if n > self.max_paths:
                raise PathLimit(f'more than {self.max_paths} paths')
            self.reset_path(tr)
            try:
                v = run(self)
                outcomes.append(Outcome('return', v, list(self.pc), list(self.log), list(self.writes), list(self.choices), state=self.path_state))
            except Infeasible:
                self.n_infeasible = getattr(self, 'n_infeasible', 0) + 1
            except SymRaise as e:
                outcomes.append(Outcome('raise', e.cls, list(self.pc), list(self.log), list(self.writes), list(self.choices), exc=e, state=self.path_state))
        return outcomes

    # ------------------------------------------------------------------ values
    def is_none(self, v):
        """True / False ; forks when unknown"""
        if v is None:
            return True
        if isinstance(v, SymObj):
            if v.cls_set is None:
                if getattr(v, 'known_not_none', False) or v.label == 'self':
                    return False               # (the receiver of the method under contract is an object)
                k = self.choose(2, f'{v.label} is None', ['None', 'notNone'])
                if k == 0:
                    v.cls_set = frozenset({NoneType})
                    self.push_undo(lambda: setattr(v, 'cls_set', None))
                    return True
                v.known_not_none = True
                self.push_undo(lambda: setattr(v, 'known_not_none', False))
                return False
            if v.cls_set == frozenset({NoneType}):
                return True
            if NoneType in v.cls_set:
                old = v.cls_set
                k = self.choose(2, f'{v.label} is None', ['None', 'notNone'])
                v.cls_set = frozenset({NoneType}) if k == 0 else frozenset(old - {NoneType})
                self.push_undo(lambda: setattr(v, 'cls_set', old))
                return k == 0
            return False
        return False

    def _mark_not_none(self, v):
        # unknown type but not None: represent as cls_set None with flag
        v.known_not_none = True
        return True

    def isinstance_(self, v, classes):
        if not isinstance(classes, tuple):
            classes = (classes,)
        for c in classes:
            if not isinstance(c, type):
                raise Unsupported(f'isinstance against non-class {c!r}')
        if isinstance(v, SymObj):
            if v.cls_set is None:
                if getattr(v, 'known_not_none', False) is False and NoneType in classes:
                    pass
                neg = getattr(v, 'neg', ())
                names = '|'.join(c.__name__ for c in classes)
                if all(any(issubclass(c, n) for n in neg) for c in classes):
                    return False
                k = self.choose(2, f'isinstance({v.label},{names})', ['T', 'F'])
                if k == 0:
                    if len(classes) == 1:
                        v.cls_set = frozenset(classes)
                        v.subclass_ok = True
                        self.push_undo(lambda: setattr(v, 'cls_set', None))
                    else:
                        j = self.choose(len(classes), f'which({v.label})', [c.__name__ for c in classes])
                        v.cls_set = frozenset({classes[j]})
                        v.subclass_ok = True
                        self.push_undo(lambda: setattr(v, 'cls_set', None))
                    return True
                oldneg = neg
                v.neg = tuple(neg) + classes
                self.push_undo(lambda: setattr(v, 'neg', oldneg))
                return False
            yes = {k for k in v.cls_set if issubclass(k, classes)}
            no = v.cls_set - yes
            if getattr(v, 'subclass_ok', False) and not yes:
                # v is "some subclass of K": could still be an instance of a more specific class
                cand = [c for c in classes if any(issubclass(c, k) for k in v.cls_set)]
                if cand:
                    # an object known only as "some subclass of K" tested against a more specific class: both answers are possible -> fork
                    neg = getattr(v, 'neg', ())
                    cand = [c for c in cand if not any(issubclass(c, n_) for n_ in neg)]
                    if not cand:
                        return False
                    k = self.choose(2, f'isinstance({v.label},{"|".join(c.__name__ for c in cand)})', ['T', 'F'])
                    if k == 0:
                        j = 0 if len(cand) == 1 else self.choose(len(cand), f'which({v.label})', [c.__name__ for c in cand])
                        old = v.cls_set
                        v.cls_set = frozenset({cand[j]})
                        self.push_undo(lambda: setattr(v, 'cls_set', old))
                        return True
                    v.neg = tuple(neg) + tuple(cand)
                    self.push_undo(lambda: setattr(v, 'neg', neg))
                    return False
            if yes and no:
                old = v.cls_set
                k = self.choose(2, f'isinstance({v.label},{"|".join(c.__name__ for c in classes)})', ['T', 'F'])
                v.cls_set = frozenset(yes if k == 0 else no)
                self.push_undo(lambda: setattr(v, 'cls_set', old))
                return k == 0
            return bool(yes)
        if isinstance(v, SymVal):
            py = {'int': int, 'bool': bool, 'str': str}[v.sort]
            return issubclass(py, classes)
        if isinstance(v, SymSeq):
            return issubclass(list if v.kind == 'list' else tuple, classes)
        if isinstance(v, SymDictU):
            return issubclass(dict, classes)
        if isinstance(v, (Closure, BoundMethod)):
            return False
        if isinstance(v, ExcVal):
            return issubclass(v.cls, classes)
        return isinstance(v, classes)

    def truth(self, v, label='truth'):
        if isinstance(v, SymVal):
            if v.sort == 'bool':
                return self.branch(v.t, label)
            if v.sort == 'int':
                return self.branch(v.t != 0, label)
            return self.branch(z3.Length(v.t) > 0, label)
        if isinstance(v, SymObj):
            if self.is_none(v):
                return False
            if v.cls_set is None:
                tk = getattr(v, 'truth_known', None)
                if tk is not None:
                    return tk
                k = self.choose(2, f'bool({v.label})', ['T', 'F'])
                v.truth_known = (k == 0)
                self.push_undo(lambda: setattr(v, 'truth_known', None))
                return k == 0
            for c in v.cls_set:
                if any('__bool__' in k.__dict__ or '__len__' in k.__dict__ for k in c.__mro__):
                    if c in (str, int, list, dict, tuple):
                        tk = getattr(v, 'truth_known', None)
                        if tk is not None:
                            return tk
                        k = self.choose(2, f'bool({v.label})', ['T', 'F'])
                        v.truth_known = (k == 0)
                        self.push_undo(lambda: setattr(v, 'truth_known', None))
                        return k == 0
                    raise Unsupported(f'truthiness of {c.__name__} with __bool__/__len__')
            return True
        if isinstance(v, SymSeq):
            if v.suffix:
                return True
            if v.nonempty is None:
                k = self.choose(2, f'nonempty({v.label})', ['nonempty', 'empty'])
                v.nonempty = (k == 0)
                self.pc.append(v.len > 0 if k == 0 else v.len == 0)
                self.push_undo(lambda: setattr(v, 'nonempty', None))
            return v.nonempty
        if isinstance(v, SymDictU):
            if v.updates:
                return True
            if v.nonempty is None:
                k = self.choose(2, f'nonempty({v.label})', ['nonempty', 'empty'])
                v.nonempty = (k == 0)
                self.push_undo(lambda: setattr(v, 'nonempty', None))
            return v.nonempty
        if isinstance(v, (Closure, BoundMethod, ExcVal, SuperProxy, Stub)):
            return True
        if isinstance(v, ModelObj):
            return v.m_truth(self)
        return bool(v)

    # ------------------------------------------------------------------ attribute access
    def getattr_(self, obj, attr, node=None):
        if isinstance(obj, ModelObj):
            return obj.m_getattr(self, attr)
        if isinstance(obj, SymObj):
            if self.is_none(obj):
                raise SymRaise(AttributeError, (f"'NoneType' object has no attribute '{attr}'",), origin=self.where(node))
            if attr in obj.fields:
                return obj.fields[attr]
            if attr == '__class__':
                if obj.cls is not None:
                    return obj.cls
                # the class of an object of unknown class: an opaque class object; only its __name__ / __qualname__ (unknown texts) can be read
                k = SymObj(None, f'type({obj.label})', prov='fresh')
                k.known_not_none = True
                k.closed = True
                k.fields['__name__'] = SymVal('str', z3.String(self.fresh_name(f'{obj.label}.__class__.__name__')))
                k.fields['__qualname__'] = k.fields['__name__']
                obj.fields['__class__'] = k
                self.push_undo(lambda: obj.fields.pop('__class__', None))
                return k
            if attr == '__dict__':
                return obj.fields
            if obj.cls_set is not None and len(obj.cls_set) > 1 and not attr.startswith('__'):
                # the object is of one of several classes and they differ in this attribute: case split on the class (sound: every class is explored)
                import inspect as _insp
                raws = [_insp.getattr_static(c, attr, _MISSING) for c in obj.cls_set]
                if any(r is not raws[0] for r in raws):
                    classes = sorted(obj.cls_set, key=lambda c: c.__name__)
                    j = self.choose(len(classes), f'class({obj.label})', [c.__name__ for c in classes])
                    old_set = obj.cls_set
                    obj.cls_set = frozenset({classes[j]})
                    self.push_undo(lambda: setattr(obj, 'cls_set', old_set))
            if obj.cls_set is not None and len(obj.cls_set) == 1 and not attr.startswith('__'):
                (c1,) = tuple(obj.cls_set)
                if not hasattr(c1, attr) and not getattr(obj, 'subclass_ok', False) and not self._instance_attr_possible(c1, attr):
                    # neither the class nor any method of it ever defines the attribute
                    raise SymRaise(AttributeError, (f"'{c1.__name__}' object has no attribute '{attr}'",), origin=self.where(node))
            if obj.cls_set is not None:
                vals = []
                for c in obj.cls_set:
                    if hasattr(c, attr):
                        vals.append(self.class_attr(obj, c, attr))
                    else:
                        vals.append(_MISSING)
                if all(v is not _MISSING for v in vals):
                    if len(vals) == 1:
                        return vals[0]
                    raise Unsupported(f'class attribute {attr} on class-set {obj}')
            if obj.cls_set is None and (getattr(obj, 'self_class', None) is not None or (obj.label == 'self' and getattr(self, 'self_class', None) is not None)) \
                    and attr not in obj.fields:
                # the receiver of the method under contract was left untyped by the contract: members the contract does not describe (typically a helper
                # method extracted from the verified one, a class-level constant) are resolved on the class that defines the verified method
                K = getattr(obj, 'self_class', None) or self.self_class
                dv = self._init_default(K, attr)
                if dv is not _MISSING:
                    return dv
                if hasattr(K, attr) and not isinstance(getattr(type(K), attr, None), property):
                    import inspect as _inspect
                    raw = _inspect.getattr_static(K, attr)
                    if not isinstance(raw, property):
                        return self.class_attr(obj, K, attr)
            if self.field_oracle is not None and obj.prov != 'fresh' and attr not in obj.frozen_missing:
                try:
                    v = self.field_oracle(self, obj, attr)
                    obj.fields[attr] = v
                    self.push_undo(lambda: obj.fields.pop(attr, None))
                    return v
                except KeyError:
                    pass
            if getattr(obj, 'opaque_copy', False) and attr not in obj.frozen_missing:
                # attribute of a (deep) copy of an opaque object = (deep) copy of the original's attribute
                from . import models
                deep = obj.label.startswith('deepcopy(')
                v = self.getattr_(obj.copy_of, attr, node)
                v = models.copy_(self, v, node, deep) if deep else v
                obj.fields[attr] = v
                self.push_undo(lambda: obj.fields.pop(attr, None))
                return v
            if obj.prov == 'fresh' or attr in obj.frozen_missing or getattr(obj, 'closed', False):
                raise SymRaise(AttributeError, (f'{obj} has no attribute {attr}',), origin=self.where(node))
            raise Unsupported(f'attribute {attr} of {obj} not described by the contract')
        if isinstance(obj, SuperProxy):
            o = obj.obj
            mro = o.cls.__mro__
            i = mro.index(obj.after)
            for k in mro[i + 1:]:
                if attr in k.__dict__:
                    return self.bind(o, k.__dict__[attr], k, attr)
            raise SymRaise(AttributeError, (attr,), origin=self.where(node))
        if isinstance(obj, SymVal):
            return BoundMethod(obj, ('symval', attr), attr)
        if isinstance(obj, (SymSeq, SymDictU)):
            return BoundMethod(obj, ('symcont', attr), attr)
        if isinstance(obj, ExcVal):
            if attr == 'args':
                return obj.args
            raise Unsupported(f'attribute {attr} of exception value')
        if isinstance(obj, Closure):
            if attr == '__name__':
                return obj.name
            raise Unsupported(f'attribute {attr} of closure')
        if isinstance(obj, tuple) and attr in (getattr(type(obj), '_fields', None) or ()):
            return getattr(obj, attr)            # field of a namedtuple record
        if isinstance(obj, (list, dict, set, str, tuple)) and not isinstance(obj, type):
            if not hasattr(obj, attr):
                raise SymRaise(AttributeError, (attr,), origin=self.where(node))
            return BoundMethod(obj, ('concrete', attr), attr)
        # real python object (module, class, constant)
        try:
            v = getattr(obj, attr)
            if isinstance(v, (list, dict, set)) and isinstance(obj, (types.ModuleType, type)):
                self.param_container(v, 'global')       # module-/class-level mutable state
            return v
        except AttributeError:
            raise SymRaise(AttributeError, (f'{obj!r}.{attr}',), origin=self.where(node))

    def _instance_attr_possible(self, K, attr):
        """can an instance of K have the attribute although the class does not define it?  True unless K is a builtin scalar / container class or the
        source of every class in K's MRO is available and never stores `<x>.attr` / uses setattr / defines __getattr__ / __slots__-less dynamic tricks"""
        if K in (str, int, bool, float, type(None), list, dict, tuple, set, frozenset, bytes):
            return False
        cache = self.__dict__.setdefault('_inst_attr_cache', {})
        if K not in cache:
            import inspect as _inspect, textwrap as _tw
            names, open_ = set(), False
            for k in K.__mro__:
                if k is object:
                    continue
                if '__getattr__' in k.__dict__ or '__getattribute__' in k.__dict__:
                    open_ = True
                try:
                    tree = ast.parse(_tw.dedent(_inspect.getsource(k)))
                except Exception:
                    open_ = True
                    continue
                for n in ast.walk(tree):
                    if isinstance(n, ast.Attribute) and isinstance(n.ctx, ast.Store):
                        names.add(n.attr)
                    if isinstance(n, ast.Call) and isinstance(n.func, ast.Name) and n.func.id in ('setattr', 'vars') or isinstance(n, ast.Attribute) and n.attr == '__dict__':
                        open_ = True
            cache[K] = (names, open_)
        names, open_ = cache[K]
        return open_ or attr in names

    def _init_default(self, K, attr):
        """value of an instance attribute that __init__ sets to a literal or to a parameter with a literal default (an option nobody passes)"""
        import inspect as _inspect, textwrap as _tw
        cache = self.__dict__.setdefault('_init_defaults', {})
        if K not in cache:
            vals = {}
            try:
                fn = ast.parse(_tw.dedent(_inspect.getsource(K.__init__))).body[0]
                a = fn.args
                pos = a.posonlyargs + a.args
                dflt = {p.arg: d for p, d in zip(pos[len(pos) - len(a.defaults):], a.defaults)}
                dflt.update({p.arg: d for p, d in zip(a.kwonlyargs, a.kw_defaults) if d is not None})
                for n in fn.body:
                    if isinstance(n, ast.Assign) and len(n.targets) == 1 and isinstance(n.targets[0], ast.Attribute) and isinstance(n.targets[0].value, ast.Name) \
                            and n.targets[0].value.id == 'self':
                        v = n.value
                        if isinstance(v, ast.Name) and v.id in dflt:
                            v = dflt[v.id]
                        try:
                            vals[n.targets[0].attr] = ast.literal_eval(v)
                        except Exception:
                            pass
            except Exception:
                pass
            cache[K] = vals
        return cache[K].get(attr, _MISSING)

    def new_atom(self, desc, arg):
        key = (desc, arg.t.sexpr())
        for k, (d_, a_, b_) in self.atoms.items():
            if (d_, a_.t.sexpr()) == key:
                return SymVal('bool', b_)
        k = len(self.atoms)
        b = z3.Bool(f'atom#{k}')
        self.atoms[k] = (desc, arg, b)
        return SymVal('bool', b)

    def class_attr(self, obj, cls, attr):
        for k in cls.__mro__:
            if attr in k.__dict__:
                raw = k.__dict__[attr]
                return self.bind(obj, raw, k, attr)
        return getattr(cls, attr)

    def bind(self, obj, raw, defcls, attr):
        if isinstance(raw, types.FunctionType):
            return BoundMethod(obj, raw, attr)
        if isinstance(raw, classmethod):
            return BoundMethod(defcls, raw.__func__, attr)
        if isinstance(raw, staticmethod):
            return raw.__func__
        if isinstance(raw, property):
            return self.call(BoundMethod(obj, raw.fget, attr), [], {})
        if hasattr(raw, '__get__') and not isinstance(raw, (int, str, float, tuple, list, dict, set, type(None), bool)):
            if defcls is object or defcls.__module__ == 'builtins':
                return BoundMethod(obj, ('object', attr), attr)
            raise Unsupported(f'descriptor {attr} on {defcls.__name__}')
        return raw

    def hasattr_(self, obj, attr):
        if isinstance(obj, SymObj):
            if attr in obj.fields:
                return True
            if obj.cls_set is not None and all(hasattr(c, attr) for c in obj.cls_set):
                return True
            if self.field_oracle is not None and attr not in obj.frozen_missing and getattr(obj, 'pslice', None) is not None:
                try:
                    v = self.field_oracle(self, obj, attr)
                    obj.fields[attr] = v
                    self.push_undo(lambda: obj.fields.pop(attr, None))
                    return True
                except KeyError:
                    return False
            if obj.prov == 'fresh' or attr in obj.frozen_missing or getattr(obj, 'closed', False):
                return False
            mf = getattr(obj, 'maybe_fields', {})
            if attr in mf:
                k = self.choose(2, f'hasattr({obj.label},{attr})', ['T', 'F'])
                if k == 0:
                    v = mf[attr](self, obj)
                    obj.fields[attr] = v
                    self.push_undo(lambda: obj.fields.pop(attr, None))
                    return True
                obj.frozen_missing.add(attr)
                self.push_undo(lambda: obj.frozen_missing.discard(attr))
                return False
            if self.field_oracle is not None:
                try:
                    v = self.field_oracle(self, obj, attr)
                    obj.fields[attr] = v
                    self.push_undo(lambda: obj.fields.pop(attr, None))
                    return True
                except KeyError:
                    pass
            raise Unsupported(f'hasattr({obj}, {attr}) not described by the contract')
        if isinstance(obj, (SymVal, SymSeq, SymDictU)):
            raise Unsupported('hasattr on symbolic scalar/sequence')
        return hasattr(obj, attr)

    def where(self, node):
        fn = self.stack[-1][0] if self.stack else '?'
        return f'{fn}:{getattr(node, "lineno", "?")}'

    # ------------------------------------------------------------------ calls
    def func_closure(self, f):
        """real function object from the repo -> Closure over its current source"""
        mod = f.__module__
        qual = f.__qualname__.replace('.<locals>', '')
        try:
            cands = repo.find_functions(mod, qual)
        except FileNotFoundError:
            cands = []
        if not cands and f.__name__ == '<lambda>':
            # a module-level lambda (e.g. an entry of a dispatch table): located by its line / column in the current source
            try:
                tree = repo.module_ast(mod)
                lams = [n for n in ast.walk(tree) if isinstance(n, ast.Lambda) and n.lineno == f.__code__.co_firstlineno]
                want = f.__code__.co_varnames[:f.__code__.co_argcount]
                lams = [n for n in lams if tuple(a.arg for a in n.args.posonlyargs + n.args.args) == tuple(want)]
                if len(lams) == 1:
                    m = sys.modules.get(mod) or repo.import_module(mod)
                    return Closure(lams[0], Env(m), m, qual)
            except Exception:
                pass
            return None
        if not cands:
            return None
        node = None
        if len(cands) == 1:
            node = cands[0]
        else:
            ln = f.__code__.co_firstlineno
            for c in cands:
                first = min([c.lineno] + [d.lineno for d in c.decorator_list])
                if first == ln or c.lineno == ln:
                    node = c
            if node is None:
                raise Unsupported(f'ambiguous definition {mod}:{qual}')
        m = sys.modules.get(mod) or repo.import_module(mod)
        return Closure(node, Env(m), m, qual)

    def is_repo_callable(self, f):
        mod = getattr(f, '__module__', None) or ''
        return mod.split('.')[0] in ('mindsdb_sql', 'sly')

    def call(self, f, args, kwargs, node=None):
        # bound methods
        if isinstance(f, BoundMethod):
            if isinstance(f.func, tuple):
                from . import models
                return models.call_method(self, f.self_obj, f.func, args, kwargs, node)
            return self.call(f.func, [f.self_obj] + list(args), kwargs, node)
        if isinstance(f, Closure):
            return self.call_closure(f, args, kwargs, node)
        if isinstance(f, Stub):
            return f.fn(self, args, kwargs)
        if isinstance(f, SymObj):
            if f.cls is not None and '__call__' in dir(f.cls):
                return self.call(self.class_attr(f, f.cls, '__call__'), args, kwargs, node)
            cs = getattr(f, 'call_stub', None)
            if cs is not None:
                return cs(self, args, kwargs)
            raise Unsupported(f'call of opaque object {f}')
        if isinstance(f, types.MethodType):
            return self.call(f.__func__, [f.__self__] + list(args), kwargs, node)
        if isinstance(f, type):
            return self.instantiate(f, args, kwargs, node)
        if isinstance(f, types.FunctionType):
            key = (f.__module__, f.__qualname__)
            if key in self.stubs:
                return self.stubs[key](self, args, kwargs, node)
            if self.is_repo_callable(f):
                clo = self.func_closure(f)
                if clo is None:
                    raise Unsupported(f'no source for {key}')
                return self.call_closure(clo, args, kwargs, node)
        from . import models
        return models.call_external(self, f, args, kwargs, node)

    def call_closure(self, clo, args, kwargs, node=None):
        key = (clo.module.__name__, clo.name)
        if key in self.stubs and not getattr(clo, 'no_stub', False):
            return self.stubs[key](self, args, kwargs, node)
        if len(self.stack) > self.inline_depth + 8:
            raise Unsupported(f'inline depth exceeded at {key}')
        depth = sum(1 for k, _ in self.stack if k == key)
        if depth and not (getattr(clo, 'allow_recursion', False) or (depth < 3 and (key[1].endswith(('__deepcopy__', '__copy__', '__init__', 'copy')) or 'copy' in key[1].split('.')[-1].lower()))
                          or any(sub in key[1] and depth < d for sub, d in self.recursion_ok.items())
                          or (depth < 3 and any(k_[1].endswith(('__deepcopy__', '__copy__')) for k_, _ in self.stack))):
            raise Unsupported(f'recursion without contract: {key}')
        fn = clo.node
        if clo.defcls is not None and args and isinstance(args[0], SymObj) and args[0].cls_set is None and args[0].label == 'self' \
                and getattr(args[0], 'self_class', None) is None and clo.self_obj is None:
            # a method under contract called on a receiver the contract left untyped: see getattr's fallback for members the contract does not describe
            args[0].self_class = clo.defcls
        env = Env(clo.module, parent=clo.env if clo.env.vars or clo.env.parent else None)
        if isinstance(fn, ast.Lambda):
            self.bind_params(fn.args, args, kwargs, env, clo)
            self.stack.append((key, fn))
            try:
                return self.eval(fn.body, env)
            finally:
                self.stack.pop()
        self.bind_params(fn.args, args, kwargs, env, clo)
        env.defcls = clo.defcls
        self.stack.append((key, fn))
        is_gen = _is_generator(fn)
        if is_gen:
            # generator function: run eagerly and hand out the list of yielded values (assumption register: generator bodies are free of effects
            # whose interleaving with the consumer matters - the library's generators only compute strings / tokens)
            self.yields = getattr(self, 'yields', [])
            self.yields.append([])
        try:
            self.exec_block(fn.body, env)
            return self.yields[-1] if is_gen else None
        except ReturnSig as r:
            return self.yields[-1] if is_gen else r.v
        finally:
            if is_gen:
                done = self.yields.pop()
            self.stack.pop()

    def bind_params(self, a, args, kwargs, env, clo):
        args = list(args)
        kwargs = dict(kwargs)
        pos = [p.arg for p in a.posonlyargs + a.args]
        defaults = a.defaults
        nd = len(defaults)
        defenv = clo.env if (clo.env.vars or clo.env.parent) else Env(clo.module)
        for i, name in enumerate(pos):
            if i < len(args):
                if name in kwargs:
                    raise SymRaise(TypeError, (f'multiple values for {name}',))
                env.vars[name] = args[i]
            elif name in kwargs:
                env.vars[name] = kwargs.pop(name)
            else:
                di = i - (len(pos) - nd)
                if di >= 0:
                    env.vars[name] = self.eval(defaults[di], defenv)
                else:
                    raise SymRaise(TypeError, (f'missing argument {name} of {clo.name}',))
        extra = args[len(pos):]
        if a.vararg:
            env.vars[a.vararg.arg] = tuple(extra)
        elif extra:
            raise SymRaise(TypeError, (f'too many positional arguments for {clo.name}',))
        for p, d in zip(a.kwonlyargs, a.kw_defaults):
            if p.arg in kwargs:
                env.vars[p.arg] = kwargs.pop(p.arg)
            elif d is not None:
                env.vars[p.arg] = self.eval(d, defenv)
            else:
                raise SymRaise(TypeError, (f'missing kw-only argument {p.arg}',))
        if a.kwarg:
            env.vars[a.kwarg.arg] = kwargs
        elif kwargs:
            raise SymRaise(TypeError, (f'unexpected keyword argument {sorted(kwargs)} for {clo.name}',))

    def instantiate(self, cls, args, kwargs, node=None):
        key = (cls.__module__, cls.__qualname__)
        if key in self.stubs:
            return self.stubs[key](self, args, kwargs, node)
        if issubclass(cls, BaseException):
            return ExcVal(cls, tuple(args))
        import dataclasses
        if self.is_repo_callable(cls) and dataclasses.is_dataclass(cls) and '__init__' in cls.__dict__ and \
                getattr(cls.__dict__['__init__'], '__qualname__', '').endswith('.__init__') and not repo.find_functions(cls.__module__, cls.__qualname__ + '.__init__'):
            # generated dataclass __init__: fields in declaration order, defaults as declared
            obj = SymObj({cls}, self.fresh_name(cls.__name__), prov='fresh')
            obj.closed = True
            args = list(args)
            kwargs = dict(kwargs)
            for f in dataclasses.fields(cls):
                if not f.init:
                    continue
                if args:
                    obj.fields[f.name] = args.pop(0)
                elif f.name in kwargs:
                    obj.fields[f.name] = kwargs.pop(f.name)
                elif f.default is not dataclasses.MISSING:
                    obj.fields[f.name] = f.default
                elif f.default_factory is not dataclasses.MISSING:
                    if f.default_factory in (list, dict, set):
                        obj.fields[f.name] = f.default_factory()
                    else:
                        raise Unsupported(f'dataclass default_factory {f.default_factory!r}')
                else:
                    raise SymRaise(TypeError, (f'missing argument {f.name} of {cls.__name__}',))
            if args or kwargs:
                raise SymRaise(TypeError, (f'unexpected arguments for {cls.__name__}',))
            return obj
        if issubclass(cls, tuple) and isinstance(getattr(cls, '_fields', None), tuple) and '__init__' not in cls.__dict__ and \
                all(isinstance(getattr(cls, f_, None), property) or hasattr(getattr(cls, f_, None), '__get__') for f_ in cls._fields):
            # collections.namedtuple / typing.NamedTuple: an immutable record; the generated constructor only stores its arguments, whatever they are
            try:
                return cls(*args, **kwargs)
            except TypeError as e:
                raise SymRaise(TypeError, (str(e),), origin=self.where(node) if node is not None else None)
        if self.is_repo_callable(cls):
            obj = SymObj({cls}, self.fresh_name(cls.__name__), prov='fresh')
            obj.closed = True
            for k in cls.__mro__:
                if '__init__' in k.__dict__:
                    if k is object:
                        if args or kwargs:
                            raise SymRaise(TypeError, (f'{cls.__name__}() takes no arguments',))
                        break
                    init = k.__dict__['__init__']
                    if not isinstance(init, types.FunctionType) or not self.is_repo_callable(init):
                        raise Unsupported(f'non-repo __init__ for {cls.__name__}')
                    self.call(init, [obj] + list(args), kwargs, node)
                    break
            return obj
        from . import models
        return models.call_external(self, cls, args, kwargs, node)

    # ------------------------------------------------------------------ statements
    def exec_block(self, body, env):
        for st in body:
            self.exec(st, env)

    def exec(self, st, env):
        m = getattr(self, 'x_' + type(st).__name__, None)
        if m is None:
            raise Unsupported(f'statement {type(st).__name__} at {self.where(st)}')
        return m(st, env)

    def x_Expr(self, st, env):
        v = st.value
        # `xs.extend(<generator / list comprehension with one for>)` is the loop `for t in it: [if c:] xs.append(elt)` (same order, same effects)
        if isinstance(v, ast.Call) and isinstance(v.func, ast.Attribute) and v.func.attr == 'extend' and len(v.args) == 1 and not v.keywords \
                and isinstance(v.args[0], (ast.GeneratorExp, ast.ListComp)) and len(v.args[0].generators) == 1 and not v.args[0].generators[0].is_async:
            g = v.args[0].generators[0]
            body = ast.Expr(value=ast.Call(func=ast.Attribute(value=v.func.value, attr='append', ctx=ast.Load()), args=[v.args[0].elt], keywords=[]))
            for c in reversed(g.ifs):
                body = ast.If(test=c, body=[body], orelse=[])
            loop = ast.For(target=g.target, iter=g.iter, body=[body], orelse=[])
            ast.copy_location(loop, st)
            ast.fix_missing_locations(loop)
            return self.exec_stmt(loop, env) if hasattr(self, 'exec_stmt') else self.exec_block([loop], env)
        self.eval(st.value, env)

    def x_Pass(self, st, env):
        pass

    def x_Return(self, st, env):
        raise ReturnSig(self.eval(st.value, env) if st.value is not None else None)

    def x_Break(self, st, env):
        raise BreakSig()

    def x_Continue(self, st, env):
        raise ContinueSig()

    def x_Global(self, st, env):
        env.globals_decl.update(st.names)

    def x_Nonlocal(self, st, env):
        env.nonlocals.update(st.names)

    def x_Import(self, st, env):
        for a in st.names:
            m = __import__(a.name)
            if a.asname:
                import importlib
                m = importlib.import_module(a.name)
            env.vars[a.asname or a.name.split('.')[0]] = m

    def x_ImportFrom(self, st, env):
        import importlib
        if st.level:
            raise Unsupported('relative import')
        m = importlib.import_module(st.module)
        for a in st.names:
            if a.name == '*':
                for k in getattr(m, '__all__', [k for k in vars(m) if not k.startswith('_')]):
                    env.vars[k] = getattr(m, k)
            else:
                env.vars[a.asname or a.name] = getattr(m, a.name)

    def x_FunctionDef(self, st, env):
        if st.decorator_list:
            raise Unsupported('decorated nested function')
        env.assign(st.name, Closure(st, env, env.module, (self.stack[-1][0][1] + '.' if self.stack else '') + st.name))

    def x_Assign(self, st, env):
        v = self.eval(st.value, env)
        for t in st.targets:
            self.assign(t, v, env)

    def x_AnnAssign(self, st, env):
        if st.value is not None:
            self.assign(st.target, self.eval(st.value, env), env)

    def x_AugAssign(self, st, env):
        load = ast.copy_location(_as_load(st.target), st.target)
        cur = self.eval(load, env)
        rhs = self.eval(st.value, env)
        if isinstance(cur, list) and isinstance(st.op, ast.Add):
            self.mutate_container(cur, 'extend')
            cur.extend(self.iterate_concrete(rhs))
            v = cur
        else:
            v = self.binop(st.op, cur, rhs, st)
        self.assign(st.target, v, env)

    def assign(self, t, v, env):
        if isinstance(t, ast.Name):
            if t.id in env.globals_decl:
                raise Unsupported('assignment to global')
            env.assign(t.id, v)
        elif isinstance(t, ast.Attribute):
            obj = self.eval(t.value, env)
            if isinstance(obj, SymObj) and self.is_none(obj):
                raise SymRaise(AttributeError, (f'NoneType.{t.attr}',), origin=self.where(t))
            if obj is None:
                raise SymRaise(AttributeError, (f'NoneType.{t.attr}',), origin=self.where(t))
            self.setattr(obj, t.attr, v)
        elif isinstance(t, ast.Subscript):
            obj = self.eval(t.value, env)
            from . import models
            models.setitem(self, obj, self.eval_index(t.slice, env), v, t)
        elif isinstance(t, (ast.Tuple, ast.List)):
            items = self.iterate_concrete(v, t)
            if any(isinstance(e, ast.Starred) for e in t.elts):
                raise Unsupported('starred assignment')
            if len(items) != len(t.elts):
                raise SymRaise(ValueError, ('unpack',), origin=self.where(t))
            for e, x in zip(t.elts, items):
                self.assign(e, x, env)
        else:
            raise Unsupported(f'assignment target {type(t).__name__}')

    def x_Delete(self, st, env):
        from . import models
        for t in st.targets:
            if isinstance(t, ast.Subscript):
                obj = self.eval(t.value, env)
                models.delitem(self, obj, self.eval_index(t.slice, env), t)
            elif isinstance(t, ast.Name):
                env.vars.pop(t.id, None)
            else:
                raise Unsupported('del target')

    def x_If(self, st, env):
        if self.truth(self.eval(st.test, env), f'if@{st.lineno}'):
            self.exec_block(st.body, env)
        else:
            self.exec_block(st.orelse, env)

    def x_Assert(self, st, env):
        if not self.truth(self.eval(st.test, env), f'assert@{st.lineno}'):
            raise SymRaise(AssertionError, (), origin=self.where(st))

    def x_Raise(self, st, env):
        if st.exc is None:
            cur = getattr(env, 'current_exc', None)
            e = env
            while cur is None and e.parent is not None:
                e = e.parent
                cur = getattr(e, 'current_exc', None)
            if cur is None:
                raise Unsupported('bare raise outside except')
            raise cur
        v = self.eval(st.exc, env)
        if isinstance(v, type) and issubclass(v, BaseException):
            v = ExcVal(v, ())
        if isinstance(v, ExcVal):
            r = SymRaise(v.cls, v.args, origin=self.where(st))
            r.obj = v
            raise r
        if isinstance(v, SymObj) and v.cls is not None and issubclass(v.cls, BaseException):
            r = SymRaise(v.cls, (), origin=self.where(st))
            r.obj = v
            raise r
        raise Unsupported(f'raise of {v!r}')

    def x_Try(self, st, env):
        try:
            try:
                self.exec_block(st.body, env)
            except SymRaise as e:
                for h in st.handlers:
                    if h.type is None:
                        match = True
                    else:
                        ht = self.eval(h.type, env)
                        hts = ht if isinstance(ht, tuple) else (ht,)
                        match = issubclass(e.cls, tuple(hts))
                    if match:
                        if h.name:
                            env.vars[h.name] = e.obj if e.obj is not None else ExcVal(e.cls, e.exc_args)
                        old = getattr(env, 'current_exc', None)
                        env.current_exc = e
                        try:
                            self.exec_block(h.body, env)
                        finally:
                            env.current_exc = old
                        break
                else:
                    raise
            else:
                self.exec_block(st.orelse, env)
        finally:
            if st.finalbody:
                self.exec_block(st.finalbody, env)

    def x_While(self, st, env):
        n = 0
        while True:
            if not self.truth(self.eval(st.test, env), f'while@{st.lineno}'):
                self.exec_block(st.orelse, env)
                return
            n += 1
            if n > 64:
                raise Unsupported(f'while loop without invariant exceeded 64 iterations at {self.where(st)}')
            try:
                self.exec_block(st.body, env)
            except BreakSig:
                return
            except ContinueSig:
                continue

    def x_For(self, st, env):
        it = self.eval(st.iter, env)
        from . import loops
        if isinstance(it, SymObj) and getattr(it, 'any_attr', False) and getattr(it, 'pslice', None) is None and '__iterseq__' in self.method_stubs:
            it = self.method_stubs['__iterseq__'](self, it, [], {})
        if loops.is_symbolic_iterable(it):
            return loops.summarise_for(self, st, it, env)
        items = self.iterate_concrete(it, st)
        for x in items:
            self.assign(st.target, x, env)
            try:
                self.exec_block(st.body, env)
            except BreakSig:
                return
            except ContinueSig:
                continue
        self.exec_block(st.orelse, env)

    def iterate_concrete(self, it, node=None):
        if isinstance(it, (list, tuple, set, frozenset, range, str, dict)) or isinstance(it, type({}.items())) \
                or isinstance(it, (type({}.keys()), type({}.values()), enumerate, zip, map, reversed, filter)) \
                or inspect.isgenerator(it) or type(it).__name__ in ('list_iterator', 'tuple_iterator', 'dict_itemiterator', 'dict_keyiterator'):
            return list(it)
        if isinstance(it, ModelObj) and hasattr(it, 'm_iter'):
            return list(it.m_iter(self))
        if it is None:
            raise SymRaise(TypeError, ("'NoneType' object is not iterable",), origin=self.where(node))
        if isinstance(it, SymObj) and self.is_none(it):
            raise SymRaise(TypeError, ("'NoneType' object is not iterable",), origin=self.where(node))
        if isinstance(it, SymSeq) and it.nonempty is False and not it.suffix:
            return []
        if isinstance(it, SymObj) and getattr(it, 'pslice', None) is not None:
            return list(it.pslice.values)          # iterating a production object yields the values of its symbols
        st = self.method_stubs.get('__iter__')
        if st is not None and isinstance(it, SymObj):
            return st(self, it, [], {})
        raise Unsupported(f'iteration over {it!r} at {self.where(node)}')

    # ------------------------------------------------------------------ expressions
    def eval(self, e, env):
        m = getattr(self, 'e_' + type(e).__name__, None)
        if m is None:
            raise Unsupported(f'expression {type(e).__name__} at {self.where(e)}')
        return m(e, env)

    def e_Yield(self, e, env):
        if not getattr(self, 'yields', None):
            raise Unsupported('yield outside a generator run')
        self.yields[-1].append(self.eval(e.value, env) if e.value is not None else None)
        return None

    def e_YieldFrom(self, e, env):
        if not getattr(self, 'yields', None):
            raise Unsupported('yield from outside a generator run')
        v = self.eval(e.value, env)
        if isinstance(v, SymSeq):
            raise Unsupported('yield from a symbolic sequence')
        self.yields[-1].extend(self.iterate_concrete(v, e))
        return None

    def e_Constant(self, e, env):
        return e.value

    def e_Name(self, e, env):
        try:
            v = env.lookup(e.id)
            if type(v).__name__ == 'Poison':
                raise Unsupported(f'use of loop-local name {e.id} after a summarised loop')
            return v
        except KeyError:
            pass
        m = env.module
        if m is not None and hasattr(m, e.id):
            v = getattr(m, e.id)
            if isinstance(v, (list, dict, set)):
                self.param_container(v, 'global')       # module-level mutable state
            return v
        if hasattr(builtins, e.id):
            return getattr(builtins, e.id)
        raise SymRaise(NameError, (e.id,), origin=self.where(e))

    def e_Attribute(self, e, env):
        return self.getattr_(self.eval(e.value, env), e.attr, e)

    def e_Tuple(self, e, env):
        return tuple(self.eval_elts(e.elts, env))

    def e_List(self, e, env):
        if any(isinstance(x, ast.Starred) for x in e.elts):
            # [a, *xs, b] with a symbolic sequence: the same value as [a] + xs + [b]
            vals = [(isinstance(x, ast.Starred), self.eval(x.value if isinstance(x, ast.Starred) else x, env)) for x in e.elts]
            if any(st and (isinstance(v, SymSeq) or (isinstance(v, SymObj) and self.method_stubs.get('list') is not None)) for st, v in vals):
                from . import models
                acc = []
                for st, v in vals:
                    piece = v if st else [v]
                    if st and isinstance(v, SymObj) and self.method_stubs.get('list') is not None:
                        piece = self.method_stubs['list'](self, v, [], {})          # *obj drains the iterable exactly like list(obj)
                    elif st and not isinstance(v, (SymSeq, list, tuple)):
                        piece = list(self.iterate_concrete(v, e))
                    if isinstance(piece, tuple):
                        piece = list(piece)
                    if isinstance(acc, list) and isinstance(piece, list):
                        acc = acc + piece
                    else:
                        acc = models.binop(self, ast.Add(), acc, piece, e)
                return acc
            out = []
            for st, v in vals:
                if st:
                    out.extend(self.iterate_concrete(v, e))
                else:
                    out.append(v)
            return out
        return self.eval_elts(e.elts, env)

    def e_Set(self, e, env):
        return set(self.eval_elts(e.elts, env))

    def eval_elts(self, elts, env):
        out = []
        for x in elts:
            if isinstance(x, ast.Starred):
                out.extend(self.iterate_concrete(self.eval(x.value, env), x))
            else:
                out.append(self.eval(x, env))
        return out

    def e_Dict(self, e, env):
        d = {}
        for k, v in zip(e.keys, e.values):
            if k is None:
                src = self.eval(v, env)
                if isinstance(src, SymDictU) and len(e.keys) == 1:
                    # {**d}: a shallow copy of a dict with unknown keys (same model as dict(d))
                    from .models import call_external as _ce
                    return _ce(self, dict, [src], {}, e)
                if not isinstance(src, dict):
                    raise Unsupported('** of non-concrete dict')
                d.update(src)
            else:
                d[self.hashable(self.eval(k, env))] = self.eval(v, env)
        return self.note_symkeys(d)

    def hashable(self, k):
        return k

    def note_symkeys(self, d):
        if any(isinstance(k, SymVal) for k in d):
            self.symkey_dicts = getattr(self, 'symkey_dicts', set()) | {id(d)}
        return d

    def e_JoinedStr(self, e, env):
        parts = []
        for v in e.values:
            if isinstance(v, ast.Constant):
                parts.append(v.value)
            else:
                x = self.eval(v.value, env)
                if v.format_spec is not None:
                    spec = self.eval(v.format_spec, env)
                    if isinstance(x, (int, str, float)) and isinstance(spec, str):
                        parts.append(format(x, spec))
                        continue
                    raise Unsupported('format spec on symbolic value')
                from . import models
                if v.conversion == 114:
                    parts.append(models.repr_(self, x, v))
                else:
                    parts.append(models.str_(self, x, v))
        return self.concat(parts)

    def concat(self, parts):
        if all(isinstance(p, str) for p in parts):
            return ''.join(parts)
        t = None
        for p in parts:
            z = p.t if isinstance(p, SymVal) else z3.StringVal(p)
            t = z if t is None else z3.Concat(t, z)
        return SymVal('str', t)

    def e_FormattedValue(self, e, env):
        raise Unsupported('bare FormattedValue')

    def e_Lambda(self, e, env):
        return Closure(e, env, env.module, '<lambda>')

    def e_IfExp(self, e, env):
        if self.truth(self.eval(e.test, env), f'ifexp@{e.lineno}'):
            return self.eval(e.body, env)
        return self.eval(e.orelse, env)

    def e_BoolOp(self, e, env):
        v = None
        for i, x in enumerate(e.values):
            v = self.eval(x, env)
            if i == len(e.values) - 1:
                return v
            t = self.truth(v, f'boolop@{e.lineno}')
            if isinstance(e.op, ast.And) and not t:
                return v
            if isinstance(e.op, ast.Or) and t:
                return v
        return v

    def e_UnaryOp(self, e, env):
        v = self.eval(e.operand, env)
        if isinstance(e.op, ast.Not):
            return not self.truth(v, f'not@{e.lineno}')
        if isinstance(v, SymVal) and v.sort == 'int':
            if isinstance(e.op, ast.USub):
                return SymVal('int', -v.t)
            if isinstance(e.op, ast.UAdd):
                return v
        if isinstance(v, (SymObj, SymSeq, SymVal, SymDictU)) or v is None:
            from . import models
            return models.unary_on_abstract(self, e.op, v, e)
        try:
            if isinstance(e.op, ast.USub):
                return -v
            if isinstance(e.op, ast.UAdd):
                return +v
            if isinstance(e.op, ast.Invert):
                return ~v
        except TypeError as ex:
            raise SymRaise(TypeError, (str(ex),), origin=self.where(e))
        raise Unsupported('unary op')

    def e_BinOp(self, e, env):
        return self.binop(e.op, self.eval(e.left, env), self.eval(e.right, env), e)

    def binop(self, op, a, b, node):
        from . import models
        return models.binop(self, op, a, b, node)

    def e_Compare(self, e, env):
        from . import models
        left = self.eval(e.left, env)
        for op, r in zip(e.ops, e.comparators):
            right = self.eval(r, env)
            res = models.compare(self, op, left, right, e)
            if len(e.ops) == 1:
                return res
            if not self.truth(res, f'cmp@{e.lineno}'):
                return False
            left = right
        return True

    def e_Subscript(self, e, env):
        from . import models
        obj = self.eval(e.value, env)
        return models.getitem(self, obj, self.eval_index(e.slice, env), e)

    def eval_index(self, s, env):
        if isinstance(s, ast.Slice):
            return slice(self.eval(s.lower, env) if s.lower else None, self.eval(s.upper, env) if s.upper else None,
                         self.eval(s.step, env) if s.step else None)
        return self.eval(s, env)

    def e_Starred(self, e, env):
        raise Unsupported('starred expression')

    def e_Call(self, e, env):
        # super() special form
        if isinstance(e.func, ast.Name) and e.func.id == 'super' and not e.args:
            self_obj = env.vars.get('self')
            defcls = getattr(env, 'defcls', None)
            if defcls is None:
                defcls = self.defining_class()
            return SuperProxy(self_obj, defcls)
        # any(E for T in I) / all(E for T in I): the loop `for T in I: if [not] E: return True/False` followed by `return False/True`
        if isinstance(e.func, ast.Name) and e.func.id in ('any', 'all') and len(e.args) == 1 and not e.keywords and isinstance(e.args[0], (ast.GeneratorExp, ast.ListComp)) \
                and len(e.args[0].generators) == 1 and not e.args[0].generators[0].is_async:
            try:
                shadowed = env.lookup(e.func.id) is not None
            except KeyError:
                shadowed = False
            if not shadowed:
                g = e.args[0].generators[0]
                is_any = e.func.id == 'any'
                test = e.args[0].elt if is_any else ast.UnaryOp(op=ast.Not(), operand=e.args[0].elt)
                inner = ast.If(test=test, body=[ast.Return(value=ast.Constant(value=is_any))], orelse=[])
                for c in reversed(g.ifs):
                    inner = ast.If(test=c, body=[inner], orelse=[])
                fd = ast.FunctionDef(name=f'<{e.func.id}>', args=ast.arguments(posonlyargs=[], args=[], kwonlyargs=[], kw_defaults=[], defaults=[]),
                                     body=[ast.For(target=g.target, iter=g.iter, body=[inner], orelse=[]), ast.Return(value=ast.Constant(value=not is_any))], decorator_list=[])
                ast.copy_location(fd, e)
                ast.fix_missing_locations(fd)
                clo = Closure(fd, env, env.module, f'<{e.func.id}>@{getattr(e, "lineno", 0)}')
                return self.call_closure(clo, [], {}, e)
        # next((E for T in I if C), D): the loop `for T in I: if C: return E` followed by `return D` (short-circuit: later conditions are not evaluated)
        if isinstance(e.func, ast.Name) and e.func.id == 'next' and len(e.args) in (1, 2) and not e.keywords and isinstance(e.args[0], ast.GeneratorExp) \
                and len(e.args[0].generators) == 1 and not e.args[0].generators[0].is_async:
            try:
                shadowed = env.lookup('next') is not None
            except KeyError:
                shadowed = False
            if not shadowed:
                g = e.args[0].generators[0]
                inner = ast.Return(value=e.args[0].elt)
                for c in reversed(g.ifs):
                    inner = ast.If(test=c, body=[inner], orelse=[])
                tail = ast.Return(value=e.args[1]) if len(e.args) == 2 else ast.Raise(exc=ast.Call(func=ast.Name(id='StopIteration', ctx=ast.Load()), args=[], keywords=[]), cause=None)
                fd = ast.FunctionDef(name='<next>', args=ast.arguments(posonlyargs=[], args=[], kwonlyargs=[], kw_defaults=[], defaults=[]),
                                     body=[ast.For(target=g.target, iter=g.iter, body=[inner], orelse=[]), tail], decorator_list=[])
                ast.copy_location(fd, e)
                ast.fix_missing_locations(fd)
                clo = Closure(fd, env, env.module, f'<next>@{getattr(e, "lineno", 0)}')
                return self.call_closure(clo, [], {}, e)
        f = self.eval(e.func, env)
        args = []
        for a in e.args:
            if isinstance(a, ast.Starred):
                args.extend(self.iterate_concrete(self.eval(a.value, env), a))
            else:
                args.append(self.eval(a, env))
        kwargs = {}
        for k in e.keywords:
            if k.arg is None:
                d = self.eval(k.value, env)
                if not isinstance(d, dict):
                    raise Unsupported('** of non-concrete dict in call')
                kwargs.update(d)
            else:
                kwargs[k.arg] = self.eval(k.value, env)
        return self.call(f, args, kwargs, e)

    def defining_class(self):
        """class in which the currently executing function is defined (for super())"""
        key, fn = self.stack[-1]
        mod, qual = key
        parts = qual.split('.')
        if len(parts) < 2:
            raise Unsupported('super() outside class')
        m = sys.modules[mod]
        c = m
        for p in parts[:-1]:
            c = getattr(c, p)
        return c

    def e_ListComp(self, e, env):
        return self.comp(e, env, 'list')

    def e_SetComp(self, e, env):
        return set(self.comp(e, env, 'list'))

    def e_GeneratorExp(self, e, env):
        return self.comp(e, env, 'list')

    def e_DictComp(self, e, env):
        return dict(self.comp(e, env, 'dict'))

    def comp(self, e, env, kind):
        from . import loops
        out = []
        inner = Env(env.module, parent=env)

        def rec(i):
            if i == len(e.generators):
                if kind == 'dict':
                    out.append((self.hashable(self.eval(e.key, inner)), self.eval(e.value, inner)))
                else:
                    out.append(self.eval(e.elt, inner))
                return
            g = e.generators[i]
            it = self.eval(g.iter, inner)
            if loops.is_symbolic_iterable(it):
                if len(e.generators) != 1 or kind == 'dict':
                    raise Unsupported('nested comprehension over symbolic sequence')
                raise loops.CompOverSym(it, g)
            for x in self.iterate_concrete(it, g.iter):
                self.assign(g.target, x, inner)
                if all(self.truth(self.eval(c, inner), 'compif') for c in g.ifs):
                    rec(i + 1)
        try:
            rec(0)
        except loops.CompOverSym as c:
            return loops.summarise_comp(self, e, c.it, c.gen, inner)
        return out


_MISSING = object()


def _as_load(t):
    t2 = ast.parse(ast.unparse(t), mode='eval').body
    return t2
