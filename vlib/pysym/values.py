"""Abstract / symbolic values of the pysym executor."""
import z3


class Unsupported(Exception):
    """construct outside the supported subset -> the obligation is UNDECIDED (fail-closed)."""


class PathLimit(Exception):
    pass


class Infeasible(Exception):
    """the path condition became unsatisfiable (after an assumed contract clause): the path does not exist"""


class SymRaise(Exception):
    """a Python exception raised by the *analysed* program (a value of the path outcome)."""

    def __init__(self, cls, args=(), origin=''):
        self.cls, self.exc_args, self.origin = cls, args, origin
        self.obj = None

    def __repr__(self):
        return f'raises {self.cls.__name__}@{self.origin}'


class SymVal:
    """scalar backed by a z3 term; sort in {'int','bool','str'}"""
    __slots__ = ('sort', 't', 'optional_obj')

    def __init__(self, sort, t):
        self.sort, self.t = sort, t
        self.optional_obj = False          # True: the Bool stands for `object or None` (a regex match): `x is None` is its negation

    def __repr__(self):
        return f'<{self.sort}:{self.t}>'

    def __hash__(self):
        return hash((self.sort, self.t.get_id()))

    def __eq__(self, o):
        return isinstance(o, SymVal) and self.sort == o.sort and self.t.eq(o.t)


def mk_int(name):
    return SymVal('int', z3.Int(name))


def mk_bool(name):
    return SymVal('bool', z3.Bool(name))


def mk_str(name):
    return SymVal('str', z3.String(name))


class SymObj:
    """abstract heap object.  cls_set: frozenset of real classes (type(None) allowed) or None = unknown type.
    fields are materialised lazily through the executor's field oracle."""
    _n = 0

    def __init__(self, cls_set, label, prov='param', fields=None):
        self.cls_set = None if cls_set is None else frozenset(cls_set)
        self.label = label
        self.prov = prov                 # 'param' | 'fresh' | 'global' | 'havoc'
        self.fields = dict(fields or {})
        self.frozen_missing = set()      # attributes known to be absent
        SymObj._n += 1
        self.uid = SymObj._n

    @property
    def cls(self):
        if self.cls_set is not None and len(self.cls_set) == 1:
            return next(iter(self.cls_set))
        return None

    def __repr__(self):
        c = '?' if self.cls_set is None else '|'.join(sorted(k.__name__ for k in self.cls_set))
        return f'<{self.label}:{c}>'


class SymSeq:
    """list of unknown length whose elements are produced by elem(label) (uniform); concrete prefix/suffix
    may be attached by appends after summarisation (suffix)."""

    def __init__(self, label, elem_factory, prov='param', mapped=None, kind='list'):
        self.label = label
        self.elem_factory = elem_factory
        self.prov = prov
        self.mapped = mapped       # for results of loop summaries: (source SymSeq, per-element summary)
        self.len = z3.Int(f'len({label})')
        self.nonempty = None       # None unknown / True / False
        self.kind = kind
        self.suffix = []

    def __repr__(self):
        return f'<seq {self.label}>'


class SymDictU:
    """dict with unknown keys: items are (key, value) produced by factories"""

    def __init__(self, label, key_factory, val_factory, prov='param'):
        self.label, self.key_factory, self.val_factory, self.prov = label, key_factory, val_factory, prov
        self.nonempty = None
        self.updates = []

    def __repr__(self):
        return f'<dict {self.label}>'


class Closure:
    def __init__(self, node, env, module, name, self_obj=None, defcls=None):
        self.node, self.env, self.module, self.name, self.self_obj, self.defcls = node, env, module, name, self_obj, defcls

    def __repr__(self):
        return f'<closure {self.module}:{self.name}>'


class BoundMethod:
    def __init__(self, self_obj, func, name=''):
        self.self_obj, self.func, self.name = self_obj, func, name

    def __repr__(self):
        return f'<bound {self.name} of {self.self_obj}>'


class Event:
    """ghost log entry"""

    def __init__(self, kind, **kw):
        self.kind = kind
        self.__dict__.update(kw)

    def __repr__(self):
        d = {k: v for k, v in self.__dict__.items() if k != 'kind'}
        return f'{self.kind}({", ".join(f"{k}={v!r}" for k, v in d.items())})'


class ForEach(Event):
    def __init__(self, seq, paths):
        super().__init__('ForEach', seq=seq, paths=paths)


class Outcome:
    def __init__(self, kind, value, pc, log, writes, choices, exc=None, state=None):
        self.state = state or {}
        self.kind = kind            # 'return' | 'raise'
        self.value = value
        self.pc = pc
        self.log = log
        self.writes = writes
        self.choices = choices      # human-readable decisions of this path
        self.exc = exc

    def __repr__(self):
        return f'<{self.kind} {self.value!r} | {"; ".join(self.choices)}>'


class Stub:
    """contract stub usable as a callable value: fn(ex, args, kwargs) -> value"""

    def __init__(self, fn, name='stub'):
        self.fn, self.name = fn, name

    def __repr__(self):
        return f'<stub {self.name}>'


class ModelObj:
    """contract-provided abstract object: the contract implements the operations it supports; everything else is
    Unsupported.  Hooks: m_getattr(ex,name) m_getitem(ex,idx) m_setitem(ex,idx,v) m_delitem(ex,idx) m_len(ex)
    m_contains(ex,item) m_truth(ex) m_iter(ex)"""
    label = 'model'
    prov = 'param'

    def _no(self, what):
        raise Unsupported(f'{what} on {type(self).__name__}')

    def m_getattr(self, ex, name):
        self._no(f'attribute {name}')

    def m_getitem(self, ex, idx):
        self._no('subscript')

    def m_setitem(self, ex, idx, v):
        self._no('subscript store')

    def m_delitem(self, ex, idx):
        self._no('del subscript')

    def m_len(self, ex):
        self._no('len')

    def m_contains(self, ex, item):
        self._no('membership')

    def m_truth(self, ex):
        return True
