"""Models of builtins / operators over abstract values (per the language reference).  Everything not listed
raises Unsupported (fail-closed)."""
import ast, copy as _copy, re as _re, json as _json, collections
import z3
from .values import *
from .executor import ExcVal, PURE_BUILTINS, NoneType, SuperProxy

LIST_MUT = {'append', 'extend', 'pop', 'insert', 'remove', 'clear', 'sort', 'reverse'}
DICT_MUT = {'update', 'pop', 'clear', 'setdefault', 'popitem'}
SET_MUT = {'add', 'discard', 'remove', 'update', 'clear', 'pop'}


def is_abstract(v):
    return isinstance(v, (SymVal, SymObj, SymSeq, SymDictU, Closure, BoundMethod, ExcVal, SuperProxy, Stub, ModelObj))


def deep_abstract(v, depth=0):
    if is_abstract(v):
        return True
    if depth > 4:
        return False
    if isinstance(v, (list, tuple, set, frozenset)):
        return any(deep_abstract(x, depth + 1) for x in v)
    if isinstance(v, dict):
        return any(deep_abstract(x, depth + 1) for x in v.values()) or any(deep_abstract(x, depth + 1) for x in v.keys())
    return False


# ---------------------------------------------------------------------------------------- str / repr
def str_(ex, x, node=None):
    if isinstance(x, str):
        return x
    if isinstance(x, SymVal):
        if x.sort == 'str':
            return x
        if x.sort == 'int':
            return SymVal('str', z3.IntToStr(x.t)) if False else _int_to_str(ex, x)
        if x.sort == 'bool':
            return 'True' if ex.branch(x.t, 'str(bool)') else 'False'
    if isinstance(x, SymObj):
        if ex.is_none(x):
            return 'None'
        _sv = scalar_view(ex, x)
        if _sv is not None:
            return str_(ex, _sv, node)
        if x.cls is not None:
            for k in x.cls.__mro__:
                if '__str__' in k.__dict__ and k is not object:
                    return ex.call(ex.bind(x, k.__dict__['__str__'], k, '__str__'), [], {}, node)
        st = ex.method_stubs.get('__str__')
        if st is not None:
            return st(ex, x, [], {})
        return SymVal('str', z3.String(f'str({x.label})'))
    if isinstance(x, (SymSeq, SymDictU)):
        return SymVal('str', z3.String(f'str({x.label})'))
    if isinstance(x, ExcVal):
        # str(exception): its single argument, else an unknown text (BaseException.__str__ never raises for str / no arguments)
        if len(x.args) == 1 and isinstance(x.args[0], (str, SymVal)):
            return str_(ex, x.args[0], node)
        if not x.args:
            return ''
        return SymVal('str', z3.String(ex.fresh_name(f'str({x.cls.__name__})')))
    if is_abstract(x):
        raise Unsupported(f'str() of {x!r}')
    if deep_abstract(x):
        raise Unsupported('str() of container holding abstract values')
    return str(x)


def _int_to_str(ex, x):
    # decimal text of an integer: exact for non-negative via z3 IntToStr; negative handled by fork
    if ex.branch(x.t >= 0, 'str(int)>=0'):
        return SymVal('str', z3.IntToStr(x.t))
    return SymVal('str', z3.Concat(z3.StringVal('-'), z3.IntToStr(-x.t)))


def repr_(ex, x, node=None):
    if isinstance(x, SymVal):
        if x.sort == 'int':
            return _int_to_str(ex, x)
        if x.sort == 'bool':
            return 'True' if ex.branch(x.t, 'repr(bool)') else 'False'
        return SymVal('str', z3.String(f'repr({x.t})'))
    if isinstance(x, SymObj):
        if ex.is_none(x):
            return 'None'
        return SymVal('str', z3.String(f'repr({x.label})'))
    if isinstance(x, ExcVal):
        return SymVal('str', z3.String(ex.fresh_name(f'repr({x.cls.__name__})')))          # BaseException.__repr__ never raises
    if is_abstract(x) or deep_abstract(x):
        raise Unsupported(f'repr() of {x!r}')
    return repr(x)


# ---------------------------------------------------------------------------------------- operators
def to_z3(v):
    if isinstance(v, SymVal):
        return v.t, v.sort
    if isinstance(v, bool):
        return z3.BoolVal(v), 'bool'
    if isinstance(v, int):
        return z3.IntVal(v), 'int'
    if isinstance(v, str):
        return z3.StringVal(v), 'str'
    return None, None


def binop(ex, op, a, b, node):
    if isinstance(a, SymVal) or isinstance(b, SymVal):
        za, sa = to_z3(a)
        zb, sb = to_z3(b)
        if za is None or zb is None:
            if isinstance(op, ast.Mod) and isinstance(a, str):
                raise Unsupported('% formatting with symbolic value')
            raise SymRaise(TypeError, (f'unsupported operand types {a!r} {type(op).__name__} {b!r}',), origin=ex.where(node)) \
                if (a is None or b is None) else Unsupported(f'binop {type(op).__name__} on {a!r},{b!r}')
        if sa == 'bool':
            za, sa = z3.If(za, z3.IntVal(1), z3.IntVal(0)), 'int'
        if sb == 'bool':
            zb, sb = z3.If(zb, z3.IntVal(1), z3.IntVal(0)), 'int'
        if sa == sb == 'int':
            if isinstance(op, ast.Add):
                return SymVal('int', za + zb)
            if isinstance(op, ast.Sub):
                return SymVal('int', za - zb)
            if isinstance(op, ast.Mult):
                return SymVal('int', za * zb)
            if isinstance(op, ast.FloorDiv) and isinstance(b, int) and b > 0:
                return SymVal('int', za / zb)
            if isinstance(op, ast.Mod) and isinstance(b, int) and b > 0:
                return SymVal('int', za % zb)
            raise Unsupported(f'int op {type(op).__name__}')
        if sa == sb == 'str':
            if isinstance(op, ast.Add):
                return SymVal('str', z3.Concat(za, zb))
            raise SymRaise(TypeError, ('str op',), origin=ex.where(node))
        if sa == 'str' and sb == 'int' and isinstance(op, ast.Mult):
            return str_repeat(ex, a, b)
        if sa == 'int' and sb == 'str' and isinstance(op, ast.Mult):
            return str_repeat(ex, b, a)
        if isinstance(op, ast.Add):
            raise SymRaise(TypeError, (f'{sa} + {sb}',), origin=ex.where(node))
        raise Unsupported(f'mixed-sort binop {sa} {type(op).__name__} {sb}')
    if isinstance(a, (SymObj, SymSeq, SymDictU)) or isinstance(b, (SymObj, SymSeq, SymDictU)):
        return binop_abstract(ex, op, a, b, node)
    if is_abstract(a) or is_abstract(b):
        raise Unsupported(f'binop on {a!r},{b!r}')
    try:
        if isinstance(op, ast.Add):
            if isinstance(a, list) and isinstance(b, list):
                return a + b
            return a + b
        if isinstance(op, ast.Sub):
            return a - b
        if isinstance(op, ast.Mult):
            return a * b
        if isinstance(op, ast.Div):
            return a / b
        if isinstance(op, ast.FloorDiv):
            return a // b
        if isinstance(op, ast.Mod):
            if isinstance(a, str) and deep_abstract(b):
                raise Unsupported('% formatting with abstract value')
            return a % b
        if isinstance(op, ast.BitOr):
            return a | b
        if isinstance(op, ast.BitAnd):
            return a & b
        if isinstance(op, ast.Pow):
            return a ** b
    except TypeError as e:
        raise SymRaise(TypeError, (str(e),), origin=ex.where(node))
    except ZeroDivisionError as e:
        raise SymRaise(ZeroDivisionError, (str(e),), origin=ex.where(node))
    raise Unsupported(f'binop {type(op).__name__}')


def str_repeat(ex, s, n):
    """s * n with symbolic n: only the single-character / constant string case, as an uninterpreted-by-axiom term"""
    if isinstance(s, str) and len(s) == 1 and isinstance(n, SymVal):
        r = z3.String(ex.fresh_name(f'rep({s!r})'))
        nn = z3.If(n.t > 0, n.t, z3.IntVal(0))
        ex.assume(z3.Length(r) == nn)
        ex.assume(z3.InRe(r, z3.Star(z3.Re(z3.StringVal(s)))))
        return SymVal('str', r)
    raise Unsupported('string repetition')


def binop_abstract(ex, op, a, b, node):
    # operator on objects of (partly) known class: decided by the classes' dunder support (C02 safety VCs)
    for v in (a, b):
        if isinstance(v, SymObj) and ex.is_none(v):
            raise SymRaise(TypeError, (f'unsupported operand NoneType for {type(op).__name__}',), origin=ex.where(node))
    if isinstance(a, SymSeq) and isinstance(b, list) and isinstance(op, ast.Add):
        s = SymSeq(ex.fresh_name(a.label + '+'), a.elem_factory, prov='fresh', kind=a.kind)
        s.base = a
        s.suffix = list(a.suffix) + list(b)
        s.nonempty = True if b else a.nonempty
        s.mapped = a.mapped
        s.len = a.len
        return s
    if isinstance(a, SymSeq) and isinstance(b, SymSeq) and isinstance(op, ast.Add):
        s = SymSeq(ex.fresh_name(f'{a.label}+{b.label}'), None, prov='fresh', kind=a.kind)
        s.concat_of = (a, b)
        s.len = a.len + b.len + len(a.suffix) + len(b.suffix)
        return s
    if isinstance(a, list) and isinstance(b, SymSeq) and isinstance(op, ast.Add):
        s = SymSeq(ex.fresh_name('+' + b.label), b.elem_factory, prov='fresh', kind=b.kind)
        s.base = b
        s.prefix = list(a) + list(getattr(b, 'prefix', None) or [])
        s.suffix = list(b.suffix)
        s.nonempty = True if a else b.nonempty
        s.mapped = b.mapped
        s.len = b.len + len(a)
        return s
    st = ex.method_stubs.get('__binop__')
    if st is not None:
        return st(ex, op, a, b, node)
    raise Unsupported(f'operator {type(op).__name__} on abstract objects {a!r}, {b!r}')


def unary_on_abstract(ex, op, v, node):
    if v is None or (isinstance(v, SymObj) and ex.is_none(v)):
        raise SymRaise(TypeError, ('bad operand type for unary: NoneType',), origin=ex.where(node))
    st = ex.method_stubs.get('__unary__')
    if st is not None:
        return st(ex, op, v, node)
    raise Unsupported(f'unary {type(op).__name__} on {v!r}')


def scalar_view(ex, v):
    """an abstract object whose class is known to be exactly str / int / bool (e.g. after `isinstance(v, str)`) seen as a symbolic scalar;
    the same object always gives the same scalar.  None when v is not such an object."""
    if isinstance(v, SymObj) and v.cls_set is not None and len(v.cls_set) == 1 and next(iter(v.cls_set)) in (str, int, bool):
        k = next(iter(v.cls_set))
        store = ex.__dict__.setdefault('_scalar_views', {})
        sv = store.get(v.uid)
        if sv is None:
            name = f'{v.label}!{k.__name__}'
            sv = {str: lambda: SymVal('str', z3.String(name)), int: lambda: SymVal('int', z3.Int(name)), bool: lambda: SymVal('bool', z3.Bool(name))}[k]()
            store[v.uid] = sv
        return sv
    return None


def compare(ex, op, a, b, node):
    if isinstance(op, (ast.Is, ast.IsNot)):
        # an opaque fact that stands for "Match object or None" (regex match atoms): `m is None` <=> not fact
        for x, y in ((a, b), (b, a)):
            if y is None and isinstance(x, SymVal) and x.sort == 'bool' and getattr(x, 'optional_obj', False):
                return SymVal('bool', z3.Not(x.t)) if isinstance(op, ast.Is) else SymVal('bool', x.t)
        r = identical(ex, a, b)
        return r if isinstance(op, ast.Is) else (not r)
    if isinstance(op, (ast.In, ast.NotIn)):
        r = contains(ex, b, a, node)
        if isinstance(op, ast.In):
            return r
        return (not r) if isinstance(r, bool) else SymVal('bool', z3.Not(r.t))
    _sa, _sb = scalar_view(ex, a), scalar_view(ex, b)
    if _sa is not None:
        a = _sa
    if _sb is not None:
        b = _sb
    if isinstance(a, SymVal) or isinstance(b, SymVal):
        za, sa = to_z3(a)
        zb, sb = to_z3(b)
        if za is None or zb is None or sa != sb:
            if isinstance(op, ast.Eq):
                if (a is None or b is None):
                    return False
                if za is not None and zb is not None and {sa, sb} == {'int', 'bool'}:
                    za = z3.If(za, 1, 0) if sa == 'bool' else za
                    zb = z3.If(zb, 1, 0) if sb == 'bool' else zb
                    return SymVal('bool', za == zb)
                if za is None or zb is None:
                    other = b if isinstance(a, SymVal) else a
                    if isinstance(other, SymObj):
                        raise Unsupported('== between scalar and object')
                    return False
                return False
            if isinstance(op, ast.NotEq):
                r = compare(ex, ast.Eq(), a, b, node)
                return (not r) if isinstance(r, bool) else SymVal('bool', z3.Not(r.t))
            raise Unsupported(f'ordering between {a!r} and {b!r}')
        if isinstance(op, ast.Eq):
            return SymVal('bool', za == zb)
        if isinstance(op, ast.NotEq):
            return SymVal('bool', za != zb)
        if sa == 'int':
            return SymVal('bool', {ast.Lt: za < zb, ast.LtE: za <= zb, ast.Gt: za > zb, ast.GtE: za >= zb}[type(op)])
        raise Unsupported('string ordering')
    if isinstance(a, (SymObj, SymSeq, SymDictU)) or isinstance(b, (SymObj, SymSeq, SymDictU)):
        if isinstance(op, (ast.Eq, ast.NotEq)):
            r = equal_abstract(ex, a, b, node)
            return r if isinstance(op, ast.Eq) else (not r)
        for v in (a, b):
            if v is None or (isinstance(v, SymObj) and ex.is_none(v)):
                raise SymRaise(TypeError, ('ordering with NoneType',), origin=ex.where(node))
        st = ex.method_stubs.get('__order__')
        if st is not None:
            return st(ex, op, a, b, node)
        raise Unsupported(f'ordering on abstract objects')
    if is_abstract(a) or is_abstract(b):
        if isinstance(op, ast.Eq):
            return a is b
        if isinstance(op, ast.NotEq):
            return a is not b
        raise Unsupported('comparison on closures')
    try:
        if isinstance(op, ast.Eq):
            if deep_abstract(a) or deep_abstract(b):
                return deep_equal(ex, a, b, node)
            return a == b
        if isinstance(op, ast.NotEq):
            if deep_abstract(a) or deep_abstract(b):
                return not deep_equal(ex, a, b, node)
            return a != b
        if isinstance(op, ast.Lt):
            return a < b
        if isinstance(op, ast.LtE):
            return a <= b
        if isinstance(op, ast.Gt):
            return a > b
        if isinstance(op, ast.GtE):
            return a >= b
    except TypeError as e:
        raise SymRaise(TypeError, (str(e),), origin=ex.where(node))
    raise Unsupported('compare')


def deep_equal(ex, a, b, node):
    if isinstance(a, (list, tuple)) and isinstance(b, (list, tuple)) and type(a) == type(b):
        if len(a) != len(b):
            return False
        for x, y in zip(a, b):
            if not ex.truth(compare(ex, ast.Eq(), x, y, node), 'deep=='):
                return False
        return True
    if isinstance(a, dict) and isinstance(b, dict):
        if set(a) != set(b):
            return False
        for k in a:
            if not ex.truth(compare(ex, ast.Eq(), a[k], b[k], node), 'deep=='):
                return False
        return True
    if is_abstract(a) or is_abstract(b):
        return ex.truth(compare(ex, ast.Eq(), a, b, node), 'deep==')
    return a == b


def identical(ex, a, b):
    for x, y in ((a, b), (b, a)):
        if y is None and isinstance(x, SymObj):
            return ex.is_none(x)
    if isinstance(a, SymObj) and isinstance(b, SymObj):
        if a is b:
            return True
        if a.prov == 'fresh' or b.prov == 'fresh':
            return False
        al = getattr(a, 'may_alias', None)
        if al is not None and b in al:
            k = ex.choose(2, f'{a.label} is {b.label}', ['T', 'F'])
            return k == 0
        return False
    if isinstance(a, SymVal) or isinstance(b, SymVal):
        if a is None or b is None:
            return False
        if isinstance(a, SymVal) and isinstance(b, SymVal) and a.sort == 'bool' == b.sort:
            return ex.branch(a.t == b.t, 'is')
        if isinstance(a, SymVal) and a.sort == 'bool' and isinstance(b, bool):
            return ex.branch(a.t == z3.BoolVal(b), 'is')
        if isinstance(b, SymVal) and b.sort == 'bool' and isinstance(a, bool):
            return ex.branch(b.t == z3.BoolVal(a), 'is')
        raise Unsupported('identity on symbolic scalar')
    return a is b


def equal_abstract(ex, a, b, node):
    if a is b:
        if isinstance(a, SymObj) and a.cls is not None:
            eq = _find_dunder(a.cls, '__eq__')
            if eq is not None:
                return ex.truth(ex.call(ex.bind(a, eq[1], eq[0], '__eq__'), [b], {}, node), '==')
        return True
    for x, y in ((a, b), (b, a)):
        if y is None:
            if isinstance(x, SymObj):
                if ex.is_none(x):
                    return True
                if x.cls is not None:
                    eq = _find_dunder(x.cls, '__eq__')
                    if eq is not None:
                        return ex.truth(ex.call(ex.bind(x, eq[1], eq[0], '__eq__'), [None], {}, node), '==')
                return False
            return False
    if isinstance(a, SymObj) and a.cls is not None:
        eq = _find_dunder(a.cls, '__eq__')
        if eq is not None:
            return ex.truth(ex.call(ex.bind(a, eq[1], eq[0], '__eq__'), [b], {}, node), '==')
        return False
    st = ex.method_stubs.get('__eq__')
    if st is not None:
        return ex.truth(st(ex, a, [b], {}), '==')
    la = getattr(a, 'label', repr(a))
    lb = getattr(b, 'label', repr(b))
    k = ex.choose(2, f'{la}=={lb}', ['T', 'F'])
    return k == 0


def _find_dunder(cls, name):
    for k in cls.__mro__:
        if k is object:
            return None
        if name in k.__dict__:
            return k, k.__dict__[name]
    return None


def contains(ex, container, item, node):
    if isinstance(container, ModelObj):
        return container.m_contains(ex, item)
    if isinstance(container, SymVal) and container.sort == 'str':
        zi, si = to_z3(item)
        if si != 'str':
            raise SymRaise(TypeError, ('in <string> requires string',), origin=ex.where(node))
        return SymVal('bool', z3.Contains(container.t, zi))
    if isinstance(container, str) and isinstance(item, str):
        return item in container
    if isinstance(container, str) and isinstance(item, SymVal) and item.sort == 'str':
        return SymVal('bool', z3.Contains(z3.StringVal(container), item.t))
    if ex.atoms is not None and isinstance(container, (list, tuple, set, frozenset, dict)) and len(container) > 3 and isinstance(item, SymVal) and item.sort == 'str' \
            and all(isinstance(x, str) for x in container):
        return ex.new_atom(('member', frozenset(container)), item)
    if isinstance(container, (list, tuple, set, frozenset, dict)) or type(container).__name__ in ('dict_keys',):
        if isinstance(item, SymVal):
            conds = []
            for x in container:
                zx, sx = to_z3(x)
                if sx == item.sort:
                    conds.append(item.t == zx)
                elif is_abstract(x):
                    raise Unsupported('membership among abstract items')
            return SymVal('bool', z3.Or(*conds) if conds else z3.BoolVal(False))
        if is_abstract(item) or deep_abstract(list(container) if not isinstance(container, dict) else list(container.keys())):
            for x in container:
                if x is item:
                    return True
            for x in container:
                if is_abstract(x) or is_abstract(item):
                    if isinstance(x, (str, int, type(None))) and isinstance(item, SymObj) and item.cls is not None and item.cls not in (str, int):
                        continue
                    if ex.truth(compare(ex, ast.Eq(), item, x, node), 'in'):
                        return True
                elif x == item:
                    return True
            return False
        try:
            return item in container
        except TypeError as e:
            raise SymRaise(TypeError, (str(e),), origin=ex.where(node))
    if isinstance(container, SymDictU) and not is_abstract(item) and container.val_factory is not None:
        known = container.__dict__.setdefault('known', {})
        if item not in known:
            k = ex.choose(2, f'{item!r} in {container.label}', ['present', 'absent'])
            known[item] = ('present', container.val_factory(ex, f'{container.label}[{item!r}]')) if k == 0 else ('absent', None)
            ex.push_undo(lambda: known.pop(item, None))
        return known[item][0] == 'present'
    if isinstance(container, (SymSeq, SymDictU)):
        st = ex.method_stubs.get('__contains__')
        if st is not None:
            return st(ex, container, [item], {})
        k = ex.choose(2, f'{item!r} in {container.label}', ['T', 'F'])
        return k == 0
    if container is None or (isinstance(container, SymObj) and ex.is_none(container)):
        raise SymRaise(TypeError, ("argument of type 'NoneType' is not iterable",), origin=ex.where(node))
    if isinstance(container, SymObj):
        st = ex.method_stubs.get('__contains__')
        if st is not None:
            return st(ex, container, [item], {})
    raise Unsupported(f'membership in {container!r}')


# ---------------------------------------------------------------------------------------- subscripts
def getitem(ex, obj, idx, node):
    if isinstance(obj, ModelObj):
        return obj.m_getitem(ex, idx)
    if isinstance(obj, (list, tuple, str)) and not isinstance(idx, (SymVal, SymObj)):
        if isinstance(idx, slice):
            if any(isinstance(x, (SymVal, SymObj)) for x in (idx.start, idx.stop, idx.step)):
                raise Unsupported('symbolic slice bound on concrete sequence')
            try:
                return obj[idx]
            except TypeError as e:
                raise SymRaise(TypeError, (str(e),), origin=ex.where(node))
        try:
            return obj[idx]
        except IndexError:
            raise SymRaise(IndexError, ('index out of range',), origin=ex.where(node))
        except TypeError as e:
            raise SymRaise(TypeError, (str(e),), origin=ex.where(node))
    if isinstance(obj, dict):
        if id(obj) in getattr(ex, 'symkey_dicts', ()):
            raise Unsupported('lookup in a dict that holds symbolic keys')
        if is_abstract(idx):
            if isinstance(idx, SymVal):
                # symbolic key on concrete dict: fork over keys of the same sort + missing
                keys = [k for k in obj if to_z3(k)[1] == idx.sort]
                for k in keys:
                    if ex.branch(idx.t == to_z3(k)[0], f'key=={k!r}'):
                        return obj[k]
                raise SymRaise(KeyError, (idx,), origin=ex.where(node))
            raise Unsupported('abstract dict key')
        try:
            return obj[idx]
        except KeyError:
            raise SymRaise(KeyError, (idx,), origin=ex.where(node))
        except TypeError as e:
            raise SymRaise(TypeError, (str(e),), origin=ex.where(node))
    if isinstance(obj, SymVal) and obj.sort == 'str':
        if isinstance(idx, slice):
            if idx.step is not None:
                raise Unsupported('string slice step')
            n = z3.Length(obj.t)

            def norm(b, default):
                if b is None:
                    return default
                z, s = to_z3(b)
                if s != 'int':
                    raise Unsupported('slice bound sort')
                z = z3.If(z < 0, z3.If(z + n < 0, 0, z + n), z3.If(z > n, n, z))
                return z
            lo = norm(idx.start, z3.IntVal(0))
            hi = norm(idx.stop, n)
            return SymVal('str', z3.SubString(obj.t, lo, z3.If(hi - lo < 0, 0, hi - lo)))
        z, s = to_z3(idx)
        if s != 'int':
            raise SymRaise(TypeError, ('string index',), origin=ex.where(node))
        n = z3.Length(obj.t)
        if not ex.branch(z3.And(z < n, z >= -n), 'str-index-in-range'):
            raise SymRaise(IndexError, ('string index out of range',), origin=ex.where(node))
        zz = z3.If(z < 0, z + n, z)
        return SymVal('str', z3.SubString(obj.t, zz, 1))
    if isinstance(obj, str) and isinstance(idx, SymVal):
        return getitem(ex, SymVal('str', z3.StringVal(obj)), idx, node)
    if isinstance(obj, SymSeq):
        from . import loops
        return loops.seq_getitem(ex, obj, idx, node)
    if isinstance(obj, SymDictU):
        st = ex.method_stubs.get('__getitem__')
        if st is not None:
            return st(ex, obj, [idx], {})
        raise Unsupported('subscript of unknown dict')
    if obj is None or (isinstance(obj, SymObj) and ex.is_none(obj)):
        raise SymRaise(TypeError, ("'NoneType' object is not subscriptable",), origin=ex.where(node))
    if isinstance(obj, SymObj):
        if obj.cls is not None:
            gi = _find_dunder(obj.cls, '__getitem__')
            if gi is not None:
                return ex.call(ex.bind(obj, gi[1], gi[0], '__getitem__'), [idx], {}, node)
            raise SymRaise(TypeError, (f'{obj.cls.__name__} object is not subscriptable',), origin=ex.where(node))
        st = ex.method_stubs.get('__getitem__')
        if st is not None:
            return st(ex, obj, [idx], {})
    if isinstance(obj, (list, tuple)) and isinstance(idx, SymVal) and idx.sort == 'int':
        n = len(obj)
        for i in range(-n, n):
            if ex.branch(idx.t == i, f'idx=={i}'):
                return obj[i]
        raise SymRaise(IndexError, ('index out of range',), origin=ex.where(node))
    if isinstance(obj, type) or hasattr(obj, '__class_getitem__'):
        return obj
    raise Unsupported(f'subscript of {obj!r}')


def setitem(ex, obj, idx, v, node):
    if isinstance(obj, ModelObj):
        return obj.m_setitem(ex, idx, v)
    if isinstance(obj, (list, dict)):
        if isinstance(obj, dict) and isinstance(idx, SymVal) and ex.prov(obj) == 'fresh':
            # symbolic key in a dict allocated by the analysed code: stored under the term; later lookups in this dict are
            # refused (Unsupported) because key equality would be symbolic
            ex.symkey_dicts = getattr(ex, 'symkey_dicts', set()) | {id(obj)}
        elif is_abstract(idx) and not isinstance(idx, (SymObj,)):
            raise Unsupported('symbolic subscript store')
        if isinstance(idx, SymObj):
            raise Unsupported('object as dict key store')
        ex.mutate_container(obj, 'setitem')
        try:
            obj[idx] = v
        except IndexError:
            raise SymRaise(IndexError, ('assignment index out of range',), origin=ex.where(node))
        except TypeError as e:
            raise SymRaise(TypeError, (str(e),), origin=ex.where(node))
        return
    if isinstance(obj, SymDictU):
        obj.updates.append((idx, v))
        ex.record_write(obj, 'setitem', None, (idx, v), kind='mutate')
        ex.push_undo(lambda: obj.updates.pop())
        return
    if obj is None or (isinstance(obj, SymObj) and ex.is_none(obj)):
        raise SymRaise(TypeError, ("'NoneType' object does not support item assignment",), origin=ex.where(node))
    if isinstance(obj, SymObj) and obj.cls is not None:
        si = _find_dunder(obj.cls, '__setitem__')
        if si is not None:
            return ex.call(ex.bind(obj, si[1], si[0], '__setitem__'), [idx, v], {}, node)
        raise SymRaise(TypeError, (f'{obj.cls.__name__} does not support item assignment',), origin=ex.where(node))
    if isinstance(obj, SymObj):
        st = ex.method_stubs.get('__setitem__')
        if st is not None:
            return st(ex, obj, [idx, v], {})
    raise Unsupported(f'subscript store on {obj!r}')


def delitem(ex, obj, idx, node):
    if isinstance(obj, ModelObj):
        return obj.m_delitem(ex, idx)
    if isinstance(obj, (list, dict)):
        if isinstance(idx, slice) and any(isinstance(x, SymVal) for x in (idx.start, idx.stop)):
            raise Unsupported('symbolic del slice')
        ex.mutate_container(obj, 'delitem')
        try:
            del obj[idx]
        except (KeyError, IndexError) as e:
            raise SymRaise(type(e), (idx,), origin=ex.where(node))
        return
    raise Unsupported(f'del subscript on {obj!r}')


# ---------------------------------------------------------------------------------------- methods
def call_method(ex, recv, tag, args, kwargs, node):
    kind, name = tag
    if kind == 'concrete':
        return concrete_method(ex, recv, name, args, kwargs, node)
    if kind == 'symval':
        return symval_method(ex, recv, name, args, kwargs, node)
    if kind == 'symcont':
        from . import loops
        return loops.symcont_method(ex, recv, name, args, kwargs, node)
    if kind == 'object':
        if name == '__init__':
            return None
        _sv = scalar_view(ex, recv)
        if _sv is not None and not name.startswith('__'):
            return symval_method(ex, _sv, name, args, kwargs, node)
        raise Unsupported(f'object.{name}')
    raise Unsupported(f'method tag {tag}')


def concrete_method(ex, recv, name, args, kwargs, node):
    if isinstance(recv, list):
        if name in LIST_MUT:
            ex.mutate_container(recv, name)
            if name == 'extend' and args and not isinstance(args[0], (list, tuple)):
                args = [ex.iterate_concrete(args[0], node)]
            if name == 'sort' and (deep_abstract(recv) or kwargs):
                raise Unsupported('sort on abstract list')
            if name == 'remove' and deep_abstract(recv):
                for i, x in enumerate(recv):
                    if x is args[0]:
                        del recv[i]
                        return None
                raise Unsupported('list.remove among abstract values')
            try:
                return getattr(recv, name)(*args, **kwargs)
            except (IndexError, ValueError, TypeError) as e:
                raise SymRaise(type(e), (str(e),), origin=ex.where(node))
        if name == 'copy':
            return list(recv)
        if name in ('index', 'count'):
            if deep_abstract(recv) or deep_abstract(args):
                if name == 'index':
                    for i, x in enumerate(recv):
                        if x is args[0]:
                            return i
                raise Unsupported(f'list.{name} among abstract values')
            try:
                return getattr(recv, name)(*args)
            except ValueError as e:
                raise SymRaise(ValueError, (str(e),), origin=ex.where(node))
    if isinstance(recv, dict):
        if name in DICT_MUT:
            if any(isinstance(a, SymVal) for a in args[:1]):
                raise Unsupported('symbolic key in dict mutation')
            ex.mutate_container(recv, name)
            if name == 'update' and args and isinstance(args[0], SymDictU):
                raise Unsupported('dict.update from unknown dict')
            try:
                return getattr(recv, name)(*args, **kwargs)
            except KeyError as e:
                raise SymRaise(KeyError, e.args, origin=ex.where(node))
            except TypeError as e:
                raise SymRaise(TypeError, (str(e),), origin=ex.where(node))
        if name == 'get':
            if id(recv) in getattr(ex, 'symkey_dicts', ()):
                raise Unsupported('lookup in a dict that holds symbolic keys')
            if isinstance(args[0], SymVal):
                keys = [k for k in recv if to_z3(k)[1] == args[0].sort]
                for k in keys:
                    if ex.branch(args[0].t == to_z3(k)[0], f'key=={k!r}'):
                        return recv[k]
                return args[1] if len(args) > 1 else None
            if is_abstract(args[0]):
                raise Unsupported('abstract key in dict.get')
            try:
                return recv.get(*args)
            except TypeError as e:
                raise SymRaise(TypeError, (str(e),), origin=ex.where(node))
        if name in ('items', 'keys', 'values'):
            return list(getattr(recv, name)())
        if name == 'copy':
            return dict(recv)
    if isinstance(recv, set):
        if name in SET_MUT:
            ex.mutate_container(recv, name)
            try:
                return getattr(recv, name)(*args)
            except KeyError as e:
                raise SymRaise(KeyError, e.args, origin=ex.where(node))
        if name in ('copy', 'union', 'intersection', 'difference', 'issubset'):
            return getattr(recv, name)(*args)
    if isinstance(recv, (str, tuple)):
        if any(isinstance(a, SymVal) for a in args):
            if isinstance(recv, str):
                return symval_method(ex, SymVal('str', z3.StringVal(recv)), name, args, kwargs, node)
            raise Unsupported(f'{type(recv).__name__}.{name} with symbolic argument')
        if name == 'join' and isinstance(recv, str):
            items = args[0]
            if isinstance(items, SymSeq):
                from . import loops
                return loops.join_seq(ex, recv, items, node)
            items = ex.iterate_concrete(items, node)
            if any(isinstance(i, SymVal) for i in items):
                parts = []
                for i, it in enumerate(items):
                    if i:
                        parts.append(recv)
                    if isinstance(it, SymVal) and it.sort != 'str':
                        raise SymRaise(TypeError, ('join: expected str',), origin=ex.where(node))
                    parts.append(it)
                return ex.concat(parts)
            if deep_abstract(items):
                raise SymRaise(TypeError, ('join: expected str instance',), origin=ex.where(node)) \
                    if all(isinstance(i, SymObj) and i.cls not in (None, str) for i in items if is_abstract(i)) else Unsupported('join of abstract items')
            try:
                return recv.join(items)
            except TypeError as e:
                raise SymRaise(TypeError, (str(e),), origin=ex.where(node))
        if name == 'format' and deep_abstract(args):
            raise Unsupported('str.format with abstract args')
        if deep_abstract(args):
            raise Unsupported(f'{type(recv).__name__}.{name} with abstract args')
        try:
            return getattr(recv, name)(*args, **kwargs)
        except (ValueError, TypeError, IndexError) as e:
            raise SymRaise(type(e), (str(e),), origin=ex.where(node))
    raise Unsupported(f'method {type(recv).__name__}.{name}')


def symval_method(ex, recv, name, args, kwargs, node):
    if recv.sort != 'str':
        raise Unsupported(f'method {name} on symbolic {recv.sort}')
    s = recv.t
    if name == 'startswith':
        z, so = to_z3(args[0])
        return SymVal('bool', z3.PrefixOf(z, s))
    if name == 'endswith':
        z, so = to_z3(args[0])
        return SymVal('bool', z3.SuffixOf(z, s))
    if name in ('strip', 'lstrip', 'rstrip') and getattr(ex, 'exact_strip', False) and (not args or isinstance(args[0], str)) and not kwargs:
        # exact: s == p ++ r ++ q with p, q over the stripped characters, r not starting / ending with one (the decomposition is unique)
        chars = args[0] if args else ' \t\n\r\x0b\x0c'
        if not chars:
            return recv
        cs = z3.Union(*[z3.Re(z3.StringVal(c)) for c in chars]) if len(chars) > 1 else z3.Re(z3.StringVal(chars))
        r = z3.String(ex.fresh_name(f'{name}.core'))
        pre = z3.String(ex.fresh_name(f'{name}.pre')) if name in ('strip', 'lstrip') else z3.StringVal('')
        suf = z3.String(ex.fresh_name(f'{name}.suf')) if name in ('strip', 'rstrip') else z3.StringVal('')
        cons = [s == z3.Concat(pre, r, suf), z3.InRe(pre, z3.Star(cs)), z3.InRe(suf, z3.Star(cs))]
        n = z3.Length(r)
        if name in ('strip', 'lstrip'):
            cons.append(z3.Or(n == 0, z3.Not(z3.InRe(z3.SubString(r, 0, 1), cs))))
        if name in ('strip', 'rstrip'):
            cons.append(z3.Or(n == 0, z3.Not(z3.InRe(z3.SubString(r, n - 1, 1), cs))))
        ex.assume(z3.And(*cons))
        return SymVal('str', r)
    if name in ('lower', 'upper', 'strip', 'lstrip', 'rstrip', 'title', 'casefold'):
        # uninterpreted, functional in its argument (and idempotent) — enough for routing contracts
        f = z3.Function(f'str.{name}' + (repr(args[0]) if args else ''), z3.StringSort(), z3.StringSort())
        ax = getattr(ex, '_str_fn_terms', None)
        if ax is None:
            ax = ex._str_fn_terms = []
        r = f(s)
        ex.assume(f(r) == r)
        return SymVal('str', r)
    if name == 'replace' and len(args) == 2 and all(isinstance(a, str) for a in args):
        f = z3.Function(f'str.replace_all[{args[0]!r},{args[1]!r}]', z3.StringSort(), z3.StringSort())
        return SymVal('str', f(s))
    if name == 'ljust' and len(args) == 1:
        w, so = to_z3(args[0])
        n = z3.Length(s)
        pad = z3.String(ex.fresh_name('pad'))
        k = z3.If(w - n > 0, w - n, 0)
        ex.assume(z3.Length(pad) == k)
        ex.assume(z3.InRe(pad, z3.Star(z3.Re(z3.StringVal(' ')))))
        return SymVal('str', z3.Concat(s, pad))
    if ex.atoms is not None and name in ('isidentifier', 'isalnum', 'isalpha', 'isdigit', 'isdecimal', 'isnumeric', 'isascii') and not args:
        return ex.new_atom(('strpred', name), recv)
    if name == 'isdigit':
        return SymVal('bool', z3.InRe(s, z3.Plus(z3.Range('0', '9'))))
    if name == 'split':
        ms = kwargs.get('maxsplit', args[1] if len(args) > 1 else None)
        if args and isinstance(args[0], str) and args[0] and ms == 1:
            # exact: [s] when the separator does not occur, else [before first separator, rest]
            sep = z3.StringVal(args[0])
            if ex.branch(z3.Not(z3.Contains(recv.t, sep)), 'split: separator absent'):
                return [recv]
            a = z3.String(ex.fresh_name('split.head'))
            b = z3.String(ex.fresh_name('split.tail'))
            ex.assume(z3.And(recv.t == z3.Concat(a, sep, b), z3.Not(z3.Contains(a, sep))))
            return [SymVal('str', a), SymVal('str', b)]
        # assumed contract of str.split: a non-empty list of strings (separator / maxsplit only bound the length from above)
        seq = SymSeq(ex.fresh_name('split'), lambda e, l: SymVal('str', z3.String(e.fresh_name(l))), prov='fresh')
        seq.nonempty = True
        ex.assume(seq.len > 0)
        return seq
    if name == 'join' or name == 'format':
        raise Unsupported(f'str.{name} on symbolic string')
    raise Unsupported(f'str.{name} on symbolic string')


# ---------------------------------------------------------------------------------------- external calls
def call_external(ex, f, args, kwargs, node):
    key = (getattr(f, '__module__', None), getattr(f, '__qualname__', getattr(f, '__name__', None)))
    if any(isinstance(a_, SymObj) for a_ in args) and f not in (isinstance, hasattr, getattr, setattr, type, id, vars, _copy.copy, _copy.deepcopy):
        # an object known to be exactly a str / int / bool is handed to library code as that scalar
        args = [(_sv if (_sv := scalar_view(ex, a_)) is not None else a_) for a_ in args]
    if key in ex.stubs:
        return ex.stubs[key](ex, args, kwargs, node)
    import importlib as _importlib
    if f is _importlib.import_module and args and all(isinstance(a_, str) for a_ in args) and not kwargs:
        return _importlib.import_module(*args)          # importing a module by a concrete name: the real thing
    # logging has no effect on results (assumption register): calls on logger objects are no-ops
    _owner = getattr(f, '__self__', None)
    if _owner is not None and type(_owner).__name__ in ('Logger', 'RootLogger', 'SlyLogger', 'LoggerAdapter') and getattr(f, '__name__', '') in (
            'debug', 'info', 'warning', 'warn', 'error', 'critical', 'exception', 'log'):
        return None
    if getattr(f, '__qualname__', '').startswith(('Logger.', 'SlyLogger.')) and getattr(f, '__name__', '') in ('debug', 'info', 'warning', 'warn', 'error', 'critical', 'exception', 'log'):
        return None
    # methods of a compiled pattern are the module-level re functions with the pattern put first: contracts stub ('re', name) once
    import re as _re0
    if isinstance(_owner, _re0.Pattern) and ('re', getattr(f, '__name__', '')) in ex.stubs and not (ex.atoms is not None and f.__name__ in ('fullmatch', 'match')):
        return ex.stubs[('re', f.__name__)](ex, [_owner.pattern] + list(args), kwargs, node)
    if ex.atoms is not None:
        import re as _re
        rx = getattr(f, '__self__', None)
        if isinstance(rx, _re.Pattern) and getattr(f, '__name__', '') in ('fullmatch', 'match') and len(args) == 1 and isinstance(args[0], SymVal) and not kwargs:
            _a = ex.new_atom(('regex', rx.pattern, rx.flags, f.__name__), args[0])
            _a.optional_obj = True          # stands for `Match | None`
            return _a
        if f in (_re.fullmatch, _re.match) and len(args) >= 2 and isinstance(args[0], str) and isinstance(args[1], SymVal):
            fl = args[2] if len(args) > 2 else kwargs.get('flags', 0)
            if isinstance(fl, int):
                _a = ex.new_atom(('regex', args[0], int(fl), f.__name__), args[1])
                _a.optional_obj = True
                return _a
    import re as _re1
    if f is _re1.sub and len(args) == 3 and not kwargs and isinstance(args[0], str) and isinstance(args[1], str) and isinstance(args[2], SymVal) and args[2].sort == 'str':
        # re.sub(<constant pattern>, <constant template>, <str>): an invalid pattern / template raises whatever the subject is (decided by
        # one concrete call on the empty string and one per character the pattern mentions); otherwise a str is returned and nothing is raised
        # (assumption register: the scanning functions of `re` on a str do not raise)
        try:
            _re1.sub(args[0], args[1], '')
            for _c in sorted(set(args[0])):
                _re1.sub(args[0], args[1], _c * 2)
        except Exception as _e:
            raise SymRaise(type(_e), (str(_e),), origin=ex.where(node))
        return SymVal('str', z3.String(ex.fresh_name(f're.sub({args[0]!r})')))
    if type(f).__name__ == 'method_descriptor' and getattr(f, '__objclass__', None) in (str, list, dict) and args:
        # unbound builtin method, e.g. map(str.lower, parts)
        recv = args[0]
        if isinstance(recv, SymVal):
            return symval_method(ex, recv, f.__name__, list(args[1:]), kwargs, node)
        if isinstance(recv, f.__objclass__):
            return concrete_method(ex, recv, f.__name__, list(args[1:]), kwargs, node)
        raise SymRaise(TypeError, (f'descriptor {f.__name__} requires a {f.__objclass__.__name__}',), origin=ex.where(node))
    if f is isinstance:
        return ex.isinstance_(args[0], args[1])
    if f is hasattr:
        return ex.hasattr_(args[0], args[1])
    if f is getattr:
        if not isinstance(args[1], str):
            raise Unsupported('getattr with symbolic name')
        if len(args) == 3:
            try:
                if not ex.hasattr_(args[0], args[1]):
                    return args[2]
            except Unsupported:
                raise
            try:
                return ex.getattr_(args[0], args[1], node)
            except SymRaise as e:
                if e.cls is AttributeError:
                    return args[2]
                raise
        return ex.getattr_(args[0], args[1], node)
    if f is setattr:
        return ex.setattr(args[0], args[1], args[2])
    if f is len:
        return len_(ex, args[0], node)
    if f is str:
        if not args:
            return ''
        return str_(ex, args[0], node)
    if f is repr:
        return repr_(ex, args[0], node)
    if f is bool:
        return ex.truth(args[0]) if args else False
    if f is type and len(args) == 1:
        v = args[0]
        if isinstance(v, SymObj):
            if v.cls is not None and not getattr(v, 'subclass_ok', False):
                return v.cls
            raise Unsupported('type() of object with unknown class')
        if isinstance(v, SymVal):
            return {'int': int, 'str': str, 'bool': bool}[v.sort]
        if isinstance(v, SymSeq):
            return list
        return type(v)
    if f is int:
        return int_(ex, args, kwargs, node)
    if f is float:
        return float_(ex, args, node)
    if f is list or f is tuple:
        if not args:
            return f()
        if isinstance(args[0], SymSeq):
            from . import loops
            return loops.copy_seq(ex, args[0])
        from . import loops as _loops
        if isinstance(args[0], _loops.DictItems):
            di = args[0]
            fac = {'keys': di.d.key_factory, 'values': di.d.val_factory,
                   'items': (lambda e, l: (di.d.key_factory(e, l + '.k'), di.d.val_factory(e, l + '.v')))}[di.what]
            return SymSeq(ex.fresh_name(f'list({di.d.label}.{di.what})'), fac, prov='fresh')
        if isinstance(args[0], SymObj) and 'list' in ex.method_stubs:
            return ex.method_stubs['list'](ex, args[0], [], {})
        r = ex.iterate_concrete(args[0], node)
        return r if f is list else tuple(r)
    if f is dict:
        if args and isinstance(args[0], SymDictU):
            # a shallow copy of a dict with unknown keys: a fresh dict with the same (unknown) items and the stores made so far
            src = args[0]
            d = SymDictU(ex.fresh_name(f'dict({src.label})'), src.key_factory, src.val_factory, prov='fresh')
            d.nonempty = src.nonempty
            d.updates = list(src.updates)
            d.copy_of = src
            for k_, v_ in kwargs.items():
                d.updates.append((k_, v_))
                d.nonempty = True
            return d
        if args and isinstance(args[0], dict):
            d = dict(args[0])
            d.update(kwargs)
            return d
        if args:
            return dict(ex.iterate_concrete(args[0], node), **kwargs)
        return dict(**kwargs)
    if f is set or f is frozenset:
        if not args:
            return f()
        items = ex.iterate_concrete(args[0], node)
        if any(isinstance(i, SymVal) for i in items):
            raise Unsupported('set of symbolic scalars')
        return f(items)
    if f in (any, all):
        items = args[0]
        items = ex.iterate_concrete(items, node)
        for x in items:
            t = ex.truth(x, f.__name__)
            if f is any and t:
                return True
            if f is all and not t:
                return False
        return f is all
    if f is enumerate:
        if isinstance(args[0], SymSeq):
            from . import loops
            return loops.enumerate_seq(ex, args[0])
        return list(enumerate(ex.iterate_concrete(args[0], node), *args[1:]))
    if f is zip:
        if args and any(isinstance(a, SymSeq) for a in args):
            # zip over sequences of unknown length: min(len) tuples of unrelated generic elements (the same sequence twice: the same element twice)
            if not all(isinstance(a, SymSeq) and a.elem_factory is not None and not a.suffix and not getattr(a, 'prefix', None) for a in args) or kwargs:
                raise Unsupported('zip of symbolic and concrete sequences')
            seqs = list(args)
            zs = SymSeq(ex.fresh_name('zip(' + ','.join(a.label for a in seqs) + ')'), None, prov='fresh')

            def ef(e, l, seqs=seqs):
                made = {}
                out = []
                for i_, q in enumerate(seqs):
                    if id(q) not in made:
                        made[id(q)] = q.elem_factory(e, q.label + '[*]')
                    out.append(made[id(q)])
                return tuple(out)
            zs.elem_factory = ef
            ln = seqs[0].len
            for q in seqs[1:]:
                ln = z3.If(ln <= q.len, ln, q.len)
            zs.len = ln
            if all(q.nonempty for q in seqs):
                zs.nonempty = True
            elif any(q.nonempty is False for q in seqs):
                zs.nonempty = False
            return zs
        return list(zip(*[ex.iterate_concrete(a, node) for a in args]))
    if f is map:
        fn = args[0]
        if len(args) == 2 and isinstance(args[1], SymSeq):
            # map(f, xs) == [f(x) for x in xs]  (consumed eagerly, like every generator in this engine)
            from . import loops
            return loops.summarise_map(ex, fn, args[1], node)
        cols = [ex.iterate_concrete(a, node) for a in args[1:]]
        return [ex.call(fn, list(xs), {}, node) for xs in zip(*cols)]
    if f is sorted:
        items = ex.iterate_concrete(args[0], node)
        if deep_abstract(items) or kwargs.get('key') is not None and is_abstract(kwargs['key']):
            raise Unsupported('sorted of abstract values')
        return sorted(items, **kwargs)
    if f is range:
        if any(isinstance(a, SymVal) for a in args):
            raise Unsupported('symbolic range')
        return range(*args)
    if f is iter:
        if isinstance(args[0], (list, tuple)):
            return iter(list(args[0]))
        if isinstance(args[0], SymObj) and getattr(args[0], 'is_iterator', False):
            return args[0]
        raise Unsupported('iter()')
    if f is next:
        if type(args[0]).__name__ in ('list_iterator', 'tuple_iterator'):
            try:
                return next(args[0])
            except StopIteration:
                if len(args) > 1:
                    return args[1]
                raise SymRaise(StopIteration, (), origin=ex.where(node))
        st = ex.method_stubs.get('__next__')
        if st is not None:
            return st(ex, args[0], args[1:], {})
        if isinstance(args[0], list):
            # an (eagerly evaluated) generator: its first element, else the default
            if args[0]:
                return args[0][0]
            if len(args) > 1:
                return args[1]
            raise SymRaise(StopIteration, (), origin=ex.where(node))
        raise Unsupported('next() on abstract iterator')
    if f is id:
        v = args[0]
        return ('id', getattr(v, 'uid', id(v)))
    if f is print:
        return None
    if f is callable:
        return isinstance(args[0], (Closure, BoundMethod)) or callable(args[0])
    if f in (min, max, sum, abs) and not deep_abstract(args):
        return f(*args, **kwargs)
    if f in (min, max) and len(args) >= 2 and not kwargs and all(
            (isinstance(a_, SymVal) and a_.sort == 'int') or (isinstance(a_, int) and not isinstance(a_, bool)) for a_ in args):
        # min / max of integers, some of them symbolic: an If-chain (ties give the first argument, as in CPython - irrelevant for ints)
        def _t(a_):
            return a_.t if isinstance(a_, SymVal) else z3.IntVal(a_)
        acc = _t(args[0])
        for a_ in args[1:]:
            t_ = _t(a_)
            acc = z3.If(t_ < acc, t_, acc) if f is min else z3.If(t_ > acc, t_, acc)
        return SymVal('int', z3.simplify(acc))
    if f is abs and len(args) == 1 and isinstance(args[0], SymVal) and args[0].sort == 'int':
        return SymVal('int', z3.If(args[0].t < 0, -args[0].t, args[0].t))
    if f is issubclass:
        return issubclass(*args)
    if f is _copy.copy:
        return copy_(ex, args[0], node, deep=False)
    if f is _copy.deepcopy:
        return copy_(ex, args[0], node, deep=True)
    if f is collections.defaultdict:
        return collections.defaultdict(*args)
    if f is _json.dumps and not deep_abstract(args):
        return _json.dumps(*args, **kwargs)
    if getattr(f, '__module__', None) == 're' and not deep_abstract(args):
        return f(*args, **kwargs)
    import re as _re1
    if isinstance(getattr(f, '__self__', None), _re1.Pattern) and not deep_abstract(args) and not deep_abstract(kwargs):
        return f(*args, **kwargs)          # a compiled pattern applied to concrete text: the real thing (pure)
    if f is vars:
        if isinstance(args[0], SymObj):
            return args[0].fields
        raise Unsupported('vars()')
    if f in PURE_BUILTINS and not deep_abstract(args) and not deep_abstract(kwargs):
        try:
            return f(*args, **kwargs)
        except (TypeError, ValueError) as e:
            raise SymRaise(type(e), (str(e),), origin=ex.where(node))
    raise Unsupported(f'call of external {f!r}')


def len_(ex, v, node):
    if isinstance(v, ModelObj):
        return v.m_len(ex)
    if isinstance(v, SymSeq):
        if isinstance(v.len, z3.ExprRef) and not getattr(v, '_len_nonneg', False):
            ex.assume(v.len >= 0)          # a list has a non-negative length
        if v.suffix:
            return SymVal('int', v.len + len(v.suffix))
        return SymVal('int', v.len)
    if isinstance(v, SymVal) and v.sort == 'str':
        return SymVal('int', z3.Length(v.t))
    if isinstance(v, SymDictU):
        st = ex.method_stubs.get('__len__')
        if st:
            return st(ex, v, [], {})
        raise Unsupported('len of unknown dict')
    if v is None or (isinstance(v, SymObj) and ex.is_none(v)):
        raise SymRaise(TypeError, ("object of type 'NoneType' has no len()",), origin=ex.where(node))
    if isinstance(v, SymObj):
        if v.cls is not None:
            ln = _find_dunder(v.cls, '__len__')
            if ln is None:
                raise SymRaise(TypeError, (f'object of type {v.cls.__name__} has no len()',), origin=ex.where(node))
        st = ex.method_stubs.get('__len__')
        if st:
            return st(ex, v, [], {})
        raise Unsupported(f'len of {v!r}')
    if is_abstract(v):
        raise Unsupported('len of abstract value')
    try:
        return len(v)
    except TypeError as e:
        raise SymRaise(TypeError, (str(e),), origin=ex.where(node))


def int_(ex, args, kwargs, node):
    if not args:
        return 0
    v = args[0]
    if isinstance(v, SymVal):
        if v.sort == 'int':
            return v
        if v.sort == 'bool':
            return SymVal('int', z3.If(v.t, 1, 0))
        # str -> int: defined iff the text is an optional sign + digits (we model the digits-only case exactly,
        # everything else raises ValueError — surrounding whitespace/underscores are outside the model)
        if ex.branch(z3.InRe(v.t, z3.Plus(z3.Range('0', '9'))), 'int(str) digits'):
            return SymVal('int', z3.StrToInt(v.t))
        lex = getattr(ex, 'int_str_strict', True)
        if lex:
            raise SymRaise(ValueError, ('invalid literal for int()',), origin=ex.where(node))
        raise Unsupported('int() of non-digit symbolic string')
    if isinstance(v, SymObj):
        if ex.is_none(v):
            raise SymRaise(TypeError, ('int() argument must be a string or a number, not NoneType',), origin=ex.where(node))
        st = ex.method_stubs.get('int')
        if st:
            return st(ex, v, args[1:], kwargs)
        raise Unsupported(f'int() of {v!r}')
    if is_abstract(v):
        raise Unsupported('int() of abstract value')
    try:
        return int(*args, **kwargs)
    except (ValueError, TypeError) as e:
        raise SymRaise(type(e), (str(e),), origin=ex.where(node))


def float_(ex, args, node):
    v = args[0] if args else 0.0
    if isinstance(v, (SymVal, SymObj)):
        st = ex.method_stubs.get('float')
        if st:
            return st(ex, v, args[1:], {})
        raise Unsupported('float() of symbolic value')
    try:
        return float(v)
    except (ValueError, TypeError) as e:
        raise SymRaise(type(e), (str(e),), origin=ex.where(node))


def copy_(ex, v, node, deep, memo=None):
    """copy.copy / copy.deepcopy: structure-equal fresh graph honouring __copy__/__deepcopy__ hooks (hooks are
    executed symbolically); assumed contract for objects without hooks."""
    if v is None or isinstance(v, (int, str, float, bool, SymVal, type, Closure)):
        return v
    memo = {} if memo is None else memo
    if id(v) in memo:
        return memo[id(v)]
    if isinstance(v, list):
        out = []
        memo[id(v)] = out
        out.extend((copy_(ex, x, node, True, memo) if deep else x) for x in v)
        return out
    if isinstance(v, tuple):
        return tuple((copy_(ex, x, node, True, memo) if deep else x) for x in v)
    if isinstance(v, dict):
        out = {}
        memo[id(v)] = out
        for k, x in v.items():
            out[k] = copy_(ex, x, node, True, memo) if deep else x
        return out
    if isinstance(v, set):
        return set(v)
    if isinstance(v, SymSeq):
        from . import loops
        return loops.copy_seq(ex, v, deep=deep)
    if isinstance(v, SymObj):
        if ex.is_none(v):
            return None
        hook = '__deepcopy__' if deep else '__copy__'
        if v.cls is not None:
            h = _find_dunder(v.cls, hook)
            if h is not None:
                r = ex.call(ex.bind(v, h[1], h[0], hook), [{}] if deep else [], {}, node)
                memo[id(v)] = r
                return r
            if v.fields is not None and (v.prov == 'fresh' or getattr(v, 'closed', False) or getattr(v, 'copyable', False)):
                out = SymObj(v.cls_set, ex.fresh_name('copy(' + v.label + ')'), prov='fresh')
                out.closed = True
                memo[id(v)] = out
                for k, x in v.fields.items():
                    out.fields[k] = copy_(ex, x, node, True, memo) if deep else x
                out.copy_of = v
                return out
        out = SymObj(v.cls_set, ex.fresh_name(('deepcopy(' if deep else 'copy(') + v.label + ')'), prov='fresh')
        out.copy_of = v
        out.opaque_copy = True
        memo[id(v)] = out
        return out
    raise Unsupported(f'copy of {v!r}')
