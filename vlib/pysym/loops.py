"""Uniform-iteration summaries for loops / comprehensions over sequences of unknown length, and the
operations on such sequences.

summary rule (DESIGN 2.1): the body is executed once on a fresh symbolic element for every body path;
the body may touch outer state only by (a) appending to outer lists / adding entries to outer dicts,
(b) calling contract stubs (ghost events), (c) writing attributes of the element itself, (d) assigning
loop-local names.  Anything else (loop-carried variables, break, return, writes to other outer objects)
makes the obligation UNDECIDED.  The induction is: base = empty prefix; step = the body on an arbitrary
element with the accumulators havocked to 'acc0 ++ already-appended'."""
import ast
import z3
from .values import *
from .executor import Env, ReturnSig, BreakSig, ContinueSig, ExcVal


class Poison:
    def __init__(self, name):
        self.name = name

    def __repr__(self):
        return f'<loop-local {self.name}>'


class EnumSeq:
    def __init__(self, seq, start=0):
        self.seq, self.start = seq, start


class DictItems:
    def __init__(self, d, what='items'):
        self.d, self.what = d, what


class LoopCarried(Exception):
    def __init__(self, name, value):
        self.name, self.value = name, value


def havoc_like(ex, name, v):
    if isinstance(v, bool):
        return SymVal('bool', z3.Bool(ex.fresh_name(f'havoc({name})')))
    if isinstance(v, int) or (isinstance(v, SymVal) and v.sort == 'int'):
        return SymVal('int', z3.Int(ex.fresh_name(f'havoc({name})')))
    if isinstance(v, str) or (isinstance(v, SymVal) and v.sort == 'str'):
        return SymVal('str', z3.String(ex.fresh_name(f'havoc({name})')))
    if isinstance(v, SymVal) and v.sort == 'bool':
        return SymVal('bool', z3.Bool(ex.fresh_name(f'havoc({name})')))
    return None


class CompOverSym(Exception):
    def __init__(self, it, gen):
        self.it, self.gen = it, gen


class BodyPath:
    def __init__(self):
        self.choices = []
        self.events = []
        self.appends = {}      # id(list) -> [values]
        self.dict_adds = {}    # id(dict) -> [(k, v)]
        self.value = None      # comprehension element value
        self.raised = None
        self.returned = None   # ReturnSig of an iteration that leaves the function (only for iterations without effects)
        self.broke = False     # the iteration leaves the loop with `break` (only for iterations without effects)
        self.path_pc = []
        self.elem_writes = []
        self.dict_sets = {}    # id(outer SymDictU) -> (dict, [(k, v)]) item assignments of this iteration

    def __repr__(self):
        return f'<bodypath {self.choices} events={self.events} appends={list(self.appends.values())}>'


def is_symbolic_iterable(it):
    if isinstance(it, SymSeq):
        return not (it.nonempty is False and not it.suffix and not getattr(it, 'prefix', None))
    if isinstance(it, EnumSeq):
        return is_symbolic_iterable(it.seq)
    if isinstance(it, DictItems):
        return True
    if isinstance(it, SymDictU):
        return True
    return False


def make_elem(ex, it):
    if isinstance(it, SymSeq):
        if it.elem_factory is None:
            # the image of a summarised loop: a generic element is one of the values some path of that loop's body appended for a generic
            # element of its source (over-approximation: that path's condition is not re-assumed)
            cands = [(ch, v) for ch, vals in (it.mapped[1] if it.mapped else []) for v in vals]
            if getattr(it, 'concat_of', None) and not cands:
                # a + b: a generic element is a concrete item of either operand or a generic element of either symbolic part
                opts = []
                for part in it.concat_of:
                    for x in list(getattr(part, 'prefix', None) or []) + list(part.suffix):
                        opts.append(('item', x))
                    if not (part.nonempty is False):
                        opts.append(('gen', part))
                k = ex.choose(len(opts), f'element of {it.label}', [repr(o) for o in opts]) if len(opts) > 1 else 0
                kind, x = opts[k]
                if kind == 'item':
                    return x
                bare = SymSeq.__new__(SymSeq)
                bare.__dict__.update(x.__dict__)
                return make_elem(ex, bare)
            if not cands:
                raise Unsupported(f'iteration over derived sequence {it.label}')
            k = ex.choose(len(cands), f'element of {it.label}', [repr(ch) for ch, _ in cands]) if len(cands) > 1 else 0
            return cands[k][1]
        return it.elem_factory(ex, it.label + '[*]')
    if isinstance(it, EnumSeq):
        i = SymVal('int', z3.Int(ex.fresh_name('i')))
        ex.assume(i.t >= it.start)
        b = base_seq(it.seq)
        if isinstance(b, SymSeq) and isinstance(it.start, int) and not b.suffix and not getattr(b, 'prefix', None):
            ex.assume(i.t < it.start + b.len)          # enumerate counts the elements of the sequence
        return (i, make_elem(ex, it.seq))
    if isinstance(it, DictItems):
        d = it.d
        k = d.key_factory(ex, d.label + '.key[*]')
        v = d.val_factory(ex, d.label + '[*]')
        return {'items': (k, v), 'keys': k, 'values': v}[it.what]
    if isinstance(it, SymDictU):
        return it.key_factory(ex, it.label + '.key[*]')
    raise Unsupported('element of iterable')


def base_seq(it):
    if isinstance(it, EnumSeq):
        return base_seq(it.seq)
    if isinstance(it, DictItems):
        return it.d
    return it


def outer_containers(env):
    """concrete lists/dicts reachable from names of the current env chain (shallow)"""
    out = {}
    e = env
    while e is not None:
        for name, v in e.vars.items():
            if isinstance(v, (list, dict)) and id(v) not in out:
                out[id(v)] = (v, list(v) if isinstance(v, list) else dict(v), name, e)
        e = e.parent
    return out


def assigned_before_read(body, name):
    """True if every iteration assigns `name` (unconditionally, at the top level of the body) before any read of it"""
    for st in body or []:
        names = [n for n in ast.walk(st) if isinstance(n, ast.Name) and n.id == name]
        if not names:
            continue
        if isinstance(st, ast.Assign) and len(st.targets) == 1 and isinstance(st.targets[0], ast.Name) and st.targets[0].id == name \
                and not any(isinstance(n, ast.Name) and n.id == name for n in ast.walk(st.value)):
            return True
        if isinstance(st, ast.For) and isinstance(st.target, ast.Name) and st.target.id == name:
            return False
        return False
    return False


def probe_body(ex, run_body, env, it, havoc_ok=(), body=None):
    """explore all paths of one iteration. returns list[BodyPath]"""
    saved_trace, saved_pos = ex.trace, ex.pos
    saved_probe, saved_pp = ex.in_summary_probe, ex.probe_pending
    mark_undo, mark_log, mark_w, mark_pc, mark_ch = len(ex.undo), len(ex.log), len(ex.writes), len(ex.pc), len(ex.choices)
    saved_vars = dict(env.vars)
    conts = outer_containers(env)
    ex.in_summary_probe = True
    ex.probe_pending = [[]]
    paths = []
    n = 0
    try:
        while ex.probe_pending:
            tr = ex.probe_pending.pop()
            n += 1
            if n > 400:
                raise PathLimit('more than 400 paths in one loop body')
            ex.trace, ex.pos = list(tr), 0
            bp = BodyPath()
            elem = make_elem(ex, it)
            try:
                bp.value = run_body(elem)
            except ContinueSig:
                pass
            except BreakSig:
                # an iteration that ends the loop: admitted when that iteration has no effect on outer state
                bp.broke = True
                bp.path_pc = list(ex.pc[mark_pc:])
            except ReturnSig as e:
                # an iteration that leaves the function: admitted when that iteration has no effect on outer state
                bp.returned = e
                bp.path_pc = list(ex.pc[mark_pc:])
            except SymRaise as e:
                bp.raised = e
            except Infeasible:
                bp = None
            if bp is None:
                while len(ex.undo) > mark_undo:
                    ex.undo.pop()()
                del ex.log[mark_log:]
                del ex.writes[mark_w:]
                del ex.pc[mark_pc:]
                del ex.choices[mark_ch:]
                env.vars.clear()
                env.vars.update(saved_vars)
                continue
            bp.choices = ex.choices[mark_ch:]
            bp.events = ex.log[mark_log:]
            for cid, (c, old, name, _) in conts.items():
                if isinstance(c, list):
                    if c[:len(old)] != old and not all(a is b for a, b in zip(c, old)):
                        raise Unsupported(f'loop body rewrites outer list {name}')
                    if len(c) < len(old):
                        raise Unsupported(f'loop body shrinks outer list {name}')
                    if len(c) > len(old):
                        # snapshot: concrete containers appended in this iteration may have been filled by item assignment, which the
                        # roll-back of the probe undoes - the summary must keep their content at the time of the append
                        bp.appends[cid] = [_snap(v_) for v_ in c[len(old):]]
                else:
                    for k in old:
                        if k not in c or c[k] is not old[k]:
                            raise Unsupported(f'loop body rewrites outer dict {name}')
                    new = [(k, v) for k, v in c.items() if k not in old]
                    if new:
                        bp.dict_adds[cid] = new
            # writes to outer objects other than the element / fresh objects
            for (obj, attr, old, new, kind) in ex.writes[mark_w:]:
                if kind == 'setattr':
                    if obj.prov == 'fresh' or _reachable_from(elem, obj) or getattr(obj, 'indexed_from', None) is not None:
                        # (an element picked by a symbolic subscript: its attributes are unknown to later reads anyway)
                        bp.elem_writes.append((obj, attr, new, old))
                        continue
                    raise Unsupported(f'loop body writes outer object {obj}.{attr}')
                if kind == 'mutate':
                    if id(obj) in conts or ex.prov(obj) == 'fresh' or isinstance(obj, (SymSeq, SymDictU)) and obj.prov == 'fresh':
                        continue
                    if attr == 'setitem' and isinstance(obj, SymDictU) and bp.returned is None and not bp.broke and bp.raised is None:
                        # d[k] = v on an outer dict of unknown content, once per element: summarised after the loop as d.update(<image>)
                        bp.dict_sets.setdefault(id(obj), (obj, []))[1].append(new)
                        continue
                    if _reachable_from(elem, obj):
                        bp.elem_writes.append((obj, attr, None, None))
                        continue
                    raise Unsupported(f'loop body mutates outer container ({attr})')
            # loop-carried names
            for name, v in env.vars.items():
                if name in saved_vars and saved_vars[name] is not v and not _same(saved_vars[name], v) and name not in havoc_ok \
                        and not isinstance(saved_vars[name], Poison) and not assigned_before_read(body, name):
                    raise LoopCarried(name, saved_vars[name])
            bp.local_names = [k for k in env.vars if k not in saved_vars]
            if bp.returned is not None and (bp.appends or bp.dict_adds or bp.elem_writes):
                raise Unsupported('return inside a summarised loop after the iteration changed outer state')
            if bp.broke and (bp.appends or bp.dict_adds or bp.elem_writes):
                raise Unsupported('break inside a summarised loop after the iteration changed outer state')
            paths.append(bp)
            # roll back
            while len(ex.undo) > mark_undo:
                ex.undo.pop()()
            del ex.log[mark_log:]
            del ex.writes[mark_w:]
            del ex.pc[mark_pc:]
            del ex.choices[mark_ch:]
            env.vars.clear()
            env.vars.update(saved_vars)
    except LoopCarried:
        # the caller retries with the name havocked: nothing of the abandoned probe may stay behind
        while len(ex.undo) > mark_undo:
            ex.undo.pop()()
        del ex.log[mark_log:]
        del ex.writes[mark_w:]
        del ex.pc[mark_pc:]
        del ex.choices[mark_ch:]
        env.vars.clear()
        env.vars.update(saved_vars)
        raise
    finally:
        ex.trace, ex.pos = saved_trace, saved_pos
        ex.in_summary_probe, ex.probe_pending = saved_probe, saved_pp
    return paths, conts


def _snap(v, depth=0):
    if depth < 4 and isinstance(v, list):
        return [_snap(x, depth + 1) for x in v]
    if depth < 4 and isinstance(v, dict):
        return {k: _snap(x, depth + 1) for k, x in v.items()}
    return v


def _same(a, b):
    try:
        return a == b and type(a) is type(b) and not isinstance(a, (list, dict))
    except Exception:
        return False


def _reachable_from(elem, obj, depth=0):
    if elem is obj:
        return True
    if depth > 3:
        return False
    if isinstance(elem, (tuple, list)):
        return any(_reachable_from(e, obj, depth + 1) for e in elem)
    if isinstance(elem, SymObj):
        return any(_reachable_from(v, obj, depth + 1) for v in elem.fields.values())
    if isinstance(elem, SymSeq):
        return any(_reachable_from(v, obj, depth + 1) for v in getattr(elem, 'items', {}).values())
    return False


def apply_summary(ex, it, paths, conts, env, node):
    seq = base_seq(it)
    returning = [p for p in paths if p.returned is not None]
    paths = [p for p in paths if p.returned is None]
    if returning:
        # some iteration takes a returning path (its facts hold for that generic element; the sequence is not empty),
        # or every iteration takes a non-returning path and the loop runs to its end
        k = ex.choose(len(returning) + 1, f'loop@{getattr(node, "lineno", "?")} returns', ['no'] + [repr(p.choices) for p in returning])
        if k > 0:
            p = returning[k - 1]
            for c in p.path_pc:
                ex.assume(c)
            ex.assume(seq.len > 0)
            if p.events:
                ex.log.append(ForEach(seq, [(p.choices + ['<returns>'], p.events)]))
            raise p.returned
    breaking = [p for p in paths if p.broke]
    paths = [p for p in paths if not p.broke]
    if breaking:
        if getattr(node, 'orelse', None):
            raise Unsupported('break in a summarised loop that has an else clause')
        # some iteration breaks (its facts hold for that generic element; earlier iterations took non-breaking paths, summarised below),
        # or no iteration breaks
        k = ex.choose(len(breaking) + 1, f'loop@{getattr(node, "lineno", "?")} breaks', ['no'] + [repr(p.choices) for p in breaking])
        if k > 0:
            p = breaking[k - 1]
            for c in p.path_pc:
                ex.assume(c)
            ex.assume(seq.len > 0) if isinstance(seq, SymSeq) else None
    normal = [p for p in paths if p.raised is None]
    raising = [p for p in paths if p.raised is not None]
    if raising:
        k = ex.choose(len(raising) + 1, f'loop@{getattr(node, "lineno", "?")} raises', ['no'] + [repr(p.raised) for p in raising])
        if k > 0:
            p = raising[k - 1]
            ex.log.append(ForEach(seq, [(q.choices, q.events) for q in normal] + [(p.choices + ['<raises>'], p.events)]))
            raise p.raised
    if any(p.events for p in normal):
        fe_ = ForEach(seq, [(p.choices, p.events) for p in normal])
        fe_.elem_writes = [list(p.elem_writes) for p in normal]     # per path: (object reachable from the element, attribute, new value)
        ex.log.append(fe_)
    # accumulators
    acc_ids = set()
    for p in normal:
        acc_ids.update(p.appends)
        acc_ids.update(p.dict_adds)
    for cid in acc_ids:
        c, old, name, _ = conts[cid]
        if isinstance(c, list):
            per_path = [(p.choices, p.appends.get(cid, [])) for p in normal]
            new = SymSeq(ex.fresh_name(f'{name}<-{seq.label}'), _mapped_factory(per_path, old), prov='fresh', mapped=(seq, per_path))
            new.prefix = list(old)
            if all(len(a) == 1 for _, a in per_path):
                new.len = seq.len + len(old)
                new.nonempty = True if old else seq.nonempty
            else:
                new.len = z3.Int(f'len({new.label})')
                ex.assume(new.len >= len(old))
                if all(len(a) >= 1 for _, a in per_path) and seq.nonempty:
                    new.nonempty = True
        else:
            per_path = [(p.choices, p.dict_adds.get(cid, [])) for p in normal]
            new = SymDictU(ex.fresh_name(f'{name}<-{seq.label}'), None, None, prov='fresh')
            new.mapped = (seq, per_path)
            new.prefix = dict(old)
            if old:
                new.nonempty = True
        rebind(ex, env, c, new)
    # item assignments to outer dicts of unknown content:  for x in xs: d[k(x)] = v(x)   ==   d.update({k(x): v(x) for x in xs})
    outer_dicts = {}
    for p in normal:
        for did, (d_, pairs) in p.dict_sets.items():
            outer_dicts[did] = d_
    for did, d_ in outer_dicts.items():
        per_path = [(p.choices, list(p.dict_sets.get(did, (None, []))[1])) for p in normal]
        img = SymDictU(ex.fresh_name(f'items<-{seq.label}'), None, None, prov='fresh')
        img.mapped = (seq, per_path)
        img.prefix = {}
        ex.record_write(d_, 'update', None, img, kind='mutate')
        d_.updates.append(('update', img))
        ex.push_undo(lambda d_=d_: d_.updates.pop())
        ex.log.append(Event('DictUpdate', target=d_, source=img))
        ex.push_undo(lambda: None)
    # loop-local names are dead after the loop
    for p in normal:
        for nme in getattr(p, 'local_names', []):
            if nme not in env.vars:
                env.vars[nme] = Poison(nme)
    return normal


def _mapped_factory(per_path, old=()):
    """element factory of a summarised accumulator when all appended values are scalars of one sort (over-approximation:
    an element is an arbitrary value of that sort)"""
    sorts = set()
    for _, vals in per_path:
        for v in vals:
            if isinstance(v, SymVal):
                sorts.add(v.sort)
            elif isinstance(v, bool):
                sorts.add('bool')
            elif isinstance(v, int):
                sorts.add('int')
            elif isinstance(v, str):
                sorts.add('str')
            else:
                return None
    if len(sorts) != 1:
        return None
    so = sorts.pop()
    mk = {'int': z3.Int, 'str': z3.String, 'bool': z3.Bool}[so]
    return lambda ex, label: SymVal(so, mk(ex.fresh_name(label)))


def rebind(ex, env, old, new):
    e = env
    n = 0
    while e is not None:
        for k, v in list(e.vars.items()):
            if v is old:
                e.vars[k] = new
                n += 1
        e = e.parent
    if n == 0:
        raise Unsupported('accumulator not bound to a local name')


def summarise_for(ex, st, it, env):
    seq = base_seq(it)
    pre = list(getattr(seq, 'prefix', None) or []) if isinstance(seq, SymSeq) else []
    suf = list(seq.suffix) if isinstance(seq, SymSeq) else []
    if isinstance(it, EnumSeq) and (pre or suf):
        raise Unsupported('enumerate over sequence with concrete parts')

    def concrete_iter(items):
        for x in items:
            ex.assign(st.target, x, env)
            try:
                ex.exec_block(st.body, env)
            except ContinueSig:
                continue
    concrete_iter(pre)
    symbolic_part = not (isinstance(seq, SymSeq) and (seq.mapped is None and seq.elem_factory is None))
    if isinstance(seq, SymSeq) and seq.nonempty is False:
        symbolic_part = False
    if symbolic_part:
        def run_body(elem):
            ex.assign(st.target, elem, env)
            ex.exec_block(st.body, env)
        havoc = {}
        while True:
            try:
                paths, conts = probe_body(ex, run_body, env, it, havoc_ok=set(havoc), body=st.body)
                break
            except LoopCarried as lc:
                # sound over-approximation: a scalar modified by the loop takes an arbitrary value of its sort at the
                # head of every iteration and after the loop (enough for exception contracts; no invariant is claimed)
                hv = havoc_like(ex, lc.name, lc.value)
                if hv is None or len(havoc) > 8:
                    raise Unsupported(f'loop-carried variable {lc.name} (needs an invariant)')
                havoc[lc.name] = lc.value
                env.vars[lc.name] = hv
        apply_summary(ex, it, paths, conts, env, st)
        for name, v0 in havoc.items():
            env.vars[name] = havoc_like(ex, name, v0)
        if havoc:
            ex.havocked = getattr(ex, 'havocked', set()) | set(havoc)
    concrete_iter(suf)
    ex.exec_block(st.orelse, env)


def summarise_comp(ex, e, it, gen, env):
    seq = base_seq(it)

    def run_body(elem):
        ex.assign(gen.target, elem, env)
        for c in gen.ifs:
            if not ex.truth(ex.eval(c, env), 'compif'):
                return _SKIP
        return ex.eval(e.elt, env)
    paths, conts = probe_body(ex, run_body, env, it)
    normal = apply_summary(ex, it, paths, conts, env, e)
    per_path = [(p.choices, [] if p.value is _SKIP else [p.value]) for p in normal]
    new = SymSeq(ex.fresh_name(f'comp<-{seq.label}'), None, prov='fresh', mapped=(seq, per_path))
    new.prefix = []
    if all(len(a) == 1 for _, a in per_path) and isinstance(seq, SymSeq) and not seq.suffix and not getattr(seq, 'prefix', None):
        new.len = seq.len
        new.nonempty = seq.nonempty
    else:
        new.len = z3.Int(f'len({new.label})')
        ex.assume(new.len >= 0)
    return new


_SKIP = object()


def summarise_map(ex, fn, it, node):
    """map(fn, <symbolic sequence>) as the comprehension [fn(x) for x in it]; containers captured by fn's closure are tracked as accumulators"""
    seq = base_seq(it)
    env = Env(getattr(fn, 'module', None), parent=getattr(fn, 'env', None))

    def run_body(elem):
        return ex.call(fn, [elem], {}, node)
    paths, conts = probe_body(ex, run_body, env, it)
    normal = apply_summary(ex, it, paths, conts, env, node)
    per_path = [(p.choices, [p.value]) for p in normal]
    new = SymSeq(ex.fresh_name(f'map<-{seq.label}'), _mapped_factory(per_path), prov='fresh', mapped=(seq, per_path))
    new.prefix = []
    if isinstance(seq, SymSeq) and not seq.suffix and not getattr(seq, 'prefix', None):
        new.len = seq.len
        new.nonempty = seq.nonempty
    else:
        new.len = z3.Int(f'len({new.label})')
        ex.assume(new.len >= 0)
    return new


# ------------------------------------------------------------------------------- sequence operations
def seq_getitem(ex, seq, idx, node):
    if isinstance(idx, slice):
        if idx.stop is None and not isinstance(idx.start, SymVal) and (idx.start or 0) >= 0 and not getattr(seq, 'prefix', None):
            lo = idx.start or 0
            if lo == 0:
                return copy_seq(ex, seq)
            new = SymSeq(ex.fresh_name(f'{seq.label}[{lo}:]'), seq.elem_factory, prov='fresh', kind=seq.kind)
            new.len = z3.If(seq.len > lo, seq.len - lo, 0)
            new.slice_of = (seq, lo)
            new.suffix = list(seq.suffix)
            return new
        if idx.step is None and seq.elem_factory is not None and all(not isinstance(x, (SymObj, SymSeq)) for x in (getattr(seq, 'prefix', None) or []) + seq.suffix):
            # arbitrary slice: unknown length >= 0, elements drawn from the same element description (over-approximation)
            new = SymSeq(ex.fresh_name(f'{seq.label}[a:b]'), seq.elem_factory, prov='fresh', kind=seq.kind)
            ex.assume(new.len >= 0)
            new.slice_of = (seq, idx)
            return new
        raise Unsupported('slice of symbolic sequence')
    if isinstance(idx, SymVal):
        if idx.sort != 'int':
            raise SymRaise(TypeError, ('list indices must be integers',), origin=ex.where(node))
        if seq.suffix or getattr(seq, 'prefix', None) or seq.elem_factory is None:
            raise Unsupported('symbolic index into a symbolic sequence with concrete parts')
        if not ex.branch(z3.And(idx.t < seq.len, idx.t >= -seq.len), f'{seq.label}[i] in range'):
            raise SymRaise(IndexError, ('list index out of range',), origin=ex.where(node))
        # some element of the sequence (which one is unknown: no aliasing facts with other subscripts are kept)
        el = seq.elem_factory(ex, ex.fresh_name(f'{seq.label}[i]'))
        try:
            el.indexed_from = seq
        except Exception:
            pass
        return el
    if not isinstance(idx, int):
        raise SymRaise(TypeError, ('list indices must be integers',), origin=ex.where(node))
    pre = getattr(seq, 'prefix', None) or []
    if idx >= 0 and idx < len(pre):
        return pre[idx]
    if idx < 0 and -idx <= len(seq.suffix):
        return seq.suffix[idx]
    if pre or (seq.suffix and idx < 0):
        raise Unsupported('index into the symbolic part of a sequence with concrete parts')
    if seq.elem_factory is None:
        raise Unsupported(f'index into derived sequence {seq.label}')
    need = idx + 1 if idx >= 0 else -idx
    if seq.suffix and idx >= 0:
        # element idx is in the symbolic part iff len > idx
        if not ex.branch(seq.len > idx, f'len({seq.label})>{idx}'):
            j = idx  # falls into suffix at position idx - len : undetermined
            raise Unsupported('index crossing into suffix')
    else:
        if not ex.branch(seq.len >= need, f'len({seq.label})>={need}'):
            raise SymRaise(IndexError, ('list index out of range',), origin=ex.where(node))
    items = seq.__dict__.setdefault('items', {})
    if idx not in items:
        if any((k >= 0) != (idx >= 0) for k in items):
            ok, _ = ex.valid(seq.len >= (max([k + 1 for k in items if k >= 0] + [idx + 1 if idx >= 0 else 0]) +
                                         max([-k for k in items if k < 0] + [-idx if idx < 0 else 0])))
            if not ok:
                raise Unsupported('front and back indices of one sequence may alias')
        items[idx] = seq.elem_factory(ex, f'{seq.label}[{idx}]')
        ex.push_undo(lambda: items.pop(idx, None))
    return items[idx]


def copy_seq(ex, seq, deep=False):
    new = SymSeq(ex.fresh_name(('deepcopy(' if deep else 'copy(') + seq.label + ')'), seq.elem_factory, prov='fresh', kind=seq.kind)
    new.len = seq.len
    new.nonempty = seq.nonempty
    new.copy_of = (seq, deep)
    new.mapped = seq.mapped
    new.prefix = list(getattr(seq, 'prefix', None) or [])
    new.suffix = list(seq.suffix)
    if not deep:
        new.items = seq.__dict__.setdefault('items', {})
    return new


def enumerate_seq(ex, seq):
    return EnumSeq(seq)


def join_seq(ex, sep, seq, node):
    return SymVal('str', z3.String(ex.fresh_name(f'join({sep!r},{seq.label})')))


def symcont_method(ex, recv, name, args, kwargs, node):
    if isinstance(recv, SymSeq):
        if name == 'append':
            recv.suffix.append(args[0])
            ex.record_write(recv, 'append', None, args[0], kind='mutate')
            ex.push_undo(lambda: recv.suffix.pop())
            return None
        if name == 'extend':
            other = args[0]
            if isinstance(other, SymObj) and getattr(other, 'any_attr', False) and getattr(other, 'pslice', None) is None and '__iterseq__' in ex.method_stubs:
                other = ex.method_stubs['__iterseq__'](ex, other, [], {})
            if isinstance(other, SymSeq):
                # in place: the receiver keeps its identity and becomes  <what it was> + <other>  (what `+=` builds, without the rebinding)
                was = SymSeq.__new__(SymSeq)
                was.__dict__.update(recv.__dict__)
                was.suffix = list(recv.suffix)
                if getattr(recv, 'prefix', None):
                    was.prefix = list(recv.prefix)
                saved = dict(recv.__dict__)
                new_len = recv.len + other.len + len(recv.suffix) + len(other.suffix)
                recv.__dict__.clear()
                recv.__dict__.update(label=saved['label'], elem_factory=None, prov=saved['prov'], mapped=None, len=new_len, nonempty=None,
                                     kind=saved['kind'], suffix=[], concat_of=(was, other))
                if was.nonempty or other.nonempty or was.suffix or other.suffix:
                    recv.nonempty = True
                ex.record_write(recv, 'extend', None, other, kind='mutate')

                def un2():
                    recv.__dict__.clear()
                    recv.__dict__.update(saved)
                ex.push_undo(un2)
                return None
            items = ex.iterate_concrete(args[0], node)
            n = len(items)
            recv.suffix.extend(items)
            ex.record_write(recv, 'extend', None, items, kind='mutate')

            def un():
                if n:
                    del recv.suffix[-n:]
            ex.push_undo(un)
            return None
        if name == 'copy':
            return copy_seq(ex, recv)
        if name == 'pop':
            if args == [0] or args == (0,):
                if getattr(recv, 'prefix', None):
                    ex.record_write(recv, 'pop', None, None, kind='mutate')
                    v = recv.prefix.pop(0)
                    ex.push_undo(lambda: recv.prefix.insert(0, v))
                    return v
                v = seq_getitem(ex, recv, 0, node)
                old_len, old_items, old_ne = recv.len, recv.__dict__.get('items', {}), recv.nonempty
                recv.len = old_len - 1
                recv.items = {k - 1: x for k, x in old_items.items() if k > 0}
                recv.nonempty = None
                recv.popped = getattr(recv, 'popped', 0) + 1
                ex.record_write(recv, 'pop', None, v, kind='mutate')

                def un():
                    recv.len, recv.items, recv.nonempty = old_len, old_items, old_ne
                    recv.popped -= 1
                ex.push_undo(un)
                return v
            if not args or list(args) == [-1]:
                if recv.suffix:
                    ex.record_write(recv, 'pop', None, None, kind='mutate')
                    v = recv.suffix.pop()
                    ex.push_undo(lambda: recv.suffix.append(v))
                    return v
                v = seq_getitem(ex, recv, -1, node)
                old_len, old_items, old_ne = recv.len, recv.__dict__.get('items', {}), recv.nonempty
                recv.len = old_len - 1
                recv.items = {(k + 1 if k < 0 else k): x for k, x in old_items.items() if k != -1}
                recv.nonempty = None
                ex.record_write(recv, 'pop', None, v, kind='mutate')

                def un():
                    recv.len, recv.items, recv.nonempty = old_len, old_items, old_ne
                ex.push_undo(un)
                return v
        st = ex.method_stubs.get('seq.' + name)
        if st is not None:
            return st(ex, recv, args, kwargs)
        raise Unsupported(f'list.{name} on symbolic sequence')
    if isinstance(recv, SymDictU):
        if name in ('items', 'keys', 'values'):
            if recv.key_factory is None:
                raise Unsupported('items() of derived dict')
            if recv.updates:
                raise Unsupported('items() of updated unknown dict')
            return DictItems(recv, name)
        if name == 'update':
            ex.record_write(recv, 'update', None, args[0] if args else kwargs, kind='mutate')
            recv.updates.append(('update', args[0] if args else kwargs))
            ex.push_undo(lambda: recv.updates.pop())
            ex.log.append(Event('DictUpdate', target=recv, source=args[0] if args else kwargs))
            ex.push_undo(lambda: None)
            return None
        if name == 'copy':
            new = SymDictU(ex.fresh_name(f'copy({recv.label})'), recv.key_factory, recv.val_factory, prov='fresh')
            new.copy_of = recv
            new.nonempty = recv.nonempty
            return new
        st = ex.method_stubs.get('dict.' + name)
        if st is not None:
            return st(ex, recv, args, kwargs)
        if name in ('get', 'pop'):
            key = args[0]
            if isinstance(key, SymVal):
                raise Unsupported('symbolic key lookup in unknown dict')
            known = recv.__dict__.setdefault('known', {})
            if key not in known:
                k = ex.choose(2, f'{key!r} in {recv.label}', ['present', 'absent'])
                if k == 0:
                    known[key] = ('present', recv.val_factory(ex, f'{recv.label}[{key!r}]'))
                else:
                    known[key] = ('absent', None)
                ex.push_undo(lambda: known.pop(key, None))
            st_, v = known[key]
            if name == 'pop' and st_ == 'present':
                ex.record_write(recv, 'pop', None, key, kind='mutate')
                old = known[key]
                known[key] = ('absent', None)
                ex.push_undo(lambda: known.__setitem__(key, old))
            if st_ == 'present':
                return v
            if len(args) > 1:
                return args[1]
            if name == 'get':
                return None
            raise SymRaise(KeyError, (key,), origin=ex.where(node))
        if name == 'setdefault':
            key = args[0]
            default = args[1] if len(args) > 1 else None
            if isinstance(key, SymVal):
                raise Unsupported('symbolic key lookup in unknown dict')
            for k_, v_ in reversed(recv.updates):
                if k_ == 'update':
                    raise Unsupported('setdefault after update() of an unknown dict')
                if not isinstance(k_, SymVal) and k_ == key:
                    return v_
            known = recv.__dict__.setdefault('known', {})
            if key not in known:
                k = ex.choose(2, f'{key!r} in {recv.label}', ['present', 'absent'])
                if k == 0:
                    val = recv.val_factory(ex, f'{recv.label}[{key!r}]') if recv.val_factory is not None else SymObj(None, ex.fresh_name(f'{recv.label}[{key!r}]'), prov='param')
                    known[key] = ('present', val)
                else:
                    known[key] = ('absent', None)
                ex.push_undo(lambda: known.pop(key, None))
            st_, v = known[key]
            if st_ == 'present':
                return v
            recv.updates.append((key, default))
            ex.record_write(recv, 'setitem', None, (key, default), kind='mutate')
            ex.push_undo(lambda: recv.updates.pop())
            return default
        raise Unsupported(f'dict.{name} on unknown dict')
    raise Unsupported(f'method {name} on {recv!r}')
