"""Dependency of a planner property on the contract of query_traversal (C13).

Properties whose argument assumes "the walker shows every node reachable through the slots used here to the visitor, once, and stores
replacements in place" re-evaluate the C13 walker obligations; a failure that is not a known finding of C13 is reported under the
dependent property too, because its own obligations are then no longer covered by the assumed contract."""
from vlib.core import PROVED, UNDECIDED, Bounded


def obligations(rep, tier, prop):
    from contracts import C13
    sub = type(rep)('C13', tier, C13.LEVEL)
    C13.check(sub, tier)
    n_ok = sum(1 for o in sub.obs if o.status == PROVED)
    bad = sub.unlisted_failures()
    und = [o for o in sub.obs if o.status == UNDECIDED and not getattr(o, 'soft', False)]
    for x in bad:
        oid = f'{prop}.walker.' + x.id.split('.', 1)[1]
        if hasattr(x, 'status'):
            rep.failed(oid, x.engine, x.detail, function=x.function, clause=x.clause, replay=x.replay)
        else:
            rep.add_bounded(Bounded(oid, False, x.input, x.observed, x.expected, bound=x.bound))
    for o in und:
        rep.undecided(f'{prop}.walker.' + o.id.split('.', 1)[1], o.engine, o.detail, function=o.function)
    if not bad and not und:
        rep.proved(f'{prop}.walker', 'pysym', f'{n_ok} walker obligations of C13 hold (its {len(sub.obs) - n_ok} listed findings are recorded under C13)',
                   function='mindsdb_sql.planner.utils:query_traversal', clause='the visitor is applied once to every node reachable through the slots this property uses; replacements land in place')
