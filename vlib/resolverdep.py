"""Dependency of planner properties on the table-resolution contracts of C10 (resolve_database_table / resolve_table / get_predictor / catalog normalisation in __init__).

Properties whose argument starts from "the table was resolved to integration X / the model was found in the catalog" re-evaluate the C10
resolver and model-lookup obligations; an unlisted failure is reported under the dependent property too."""
from vlib.core import PROVED, UNDECIDED, FAILED


def obligations(rep, tier, prop):
    from contracts import C10
    sub = type(rep)('C10', tier, C10.LEVEL)
    C10.resolver_obligations(sub)
    C10.predictor_obligations(sub)
    C10.init_obligations(sub)         # the catalog the resolvers look names up in: keys lower-cased whatever form it was supplied in
    n_ok = sum(1 for o in sub.obs if o.status == PROVED)
    bad = sub.unlisted_failures()
    und = [o for o in sub.obs if o.status == UNDECIDED and not getattr(o, 'soft', False)]
    for x in bad:
        oid = f'{prop}.resolver.' + x.id.split('.', 1)[1]
        if hasattr(x, 'status'):
            rep.failed(oid, x.engine, x.detail, function=x.function, clause=x.clause, replay=x.replay)
    for o in und:
        rep.undecided(f'{prop}.resolver.' + o.id.split('.', 1)[1], o.engine, o.detail, function=o.function)
    if not bad and not und:
        rep.proved(f'{prop}.resolver', 'pysym', f'{n_ok} resolver / model-lookup obligations of C10 hold', function='mindsdb_sql.planner.query_planner:QueryPlanner.resolve_database_table',
                   clause='a table reference resolves to lower(first part) iff that part names a database (exactly one part is consumed), else to the default namespace; model keys are lower(namespace.name)')
