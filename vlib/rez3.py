"""Python regular expression (the subset the lexers use) -> z3 regular expression over strings.

Supported: literals, character classes (ranges, negation, \\d \\w \\s and their complements, ASCII only), '.', repetition, alternation, groups.
Anything else (anchors, look-around, back-references, lazy quantifiers whose laziness matters for membership: none does) raises RegexOutside.
Membership only: L(z3 term) == { w | re.fullmatch(pattern, w) } for the supported subset (validated against re.fullmatch by vcheck selftest)."""
import re
import z3
try:
    import re._parser as sre_parse
except ImportError:          # pragma: no cover
    import sre_parse


class RegexOutside(Exception):
    pass


def _ch(c):
    return z3.Re(z3.StringVal(chr(c) if isinstance(c, int) else c))


ALLCHAR = z3.AllChar(z3.ReSort(z3.StringSort()))
_CATS = {
    'CATEGORY_DIGIT': lambda: z3.Range('0', '9'),
    'CATEGORY_WORD': lambda: z3.Union(z3.Range('a', 'z'), z3.Range('A', 'Z'), z3.Range('0', '9'), _ch('_')),
    'CATEGORY_SPACE': lambda: z3.Union(*[_ch(c) for c in ' \t\n\r\x0b\x0c']),
}


def _class(items, flags):
    neg = False
    parts = []
    for o, a in items:
        o = str(o)
        if o == 'NEGATE':
            neg = True
        elif o == 'LITERAL':
            parts.append(_lit(a, flags))
        elif o == 'RANGE':
            lo, hi = a
            r = z3.Range(chr(lo), chr(hi))
            if flags & re.IGNORECASE:
                for f in (str.lower, str.upper):
                    l2, h2 = f(chr(lo)), f(chr(hi))
                    if len(l2) == 1 and len(h2) == 1 and l2 <= h2:
                        r = z3.Union(r, z3.Range(l2, h2))
            parts.append(r)
        elif o == 'CATEGORY':
            cat = str(a)
            if cat in _CATS:
                parts.append(_CATS[cat]())
            elif cat.replace('NOT_', '') in _CATS:
                parts.append(z3.Intersect(ALLCHAR, z3.Complement(_CATS[cat.replace('NOT_', '')]())))
            else:
                raise RegexOutside(cat)
        else:
            raise RegexOutside(f'class item {o}')
    u = parts[0] if len(parts) == 1 else z3.Union(*parts)
    return z3.Intersect(ALLCHAR, z3.Complement(u)) if neg else u


def _lit(c, flags):
    s = chr(c)
    if flags & re.IGNORECASE and s.lower() != s.upper():
        return z3.Union(_ch(s.lower()), _ch(s.upper()))
    return _ch(s)


def _seq(nodes, flags):
    rs = [_node(n, flags) for n in nodes]
    if not rs:
        return z3.Re(z3.StringVal(''))
    return rs[0] if len(rs) == 1 else z3.Concat(*rs)


def _node(n, flags):
    op, av = n
    op = str(op)
    if op == 'LITERAL':
        return _lit(av, flags)
    if op == 'NOT_LITERAL':
        return z3.Intersect(ALLCHAR, z3.Complement(_lit(av, flags)))
    if op == 'ANY':
        return ALLCHAR if flags & re.DOTALL else z3.Intersect(ALLCHAR, z3.Complement(_ch('\n')))
    if op == 'IN':
        return _class(av, flags)
    if op in ('MAX_REPEAT', 'MIN_REPEAT'):
        lo, hi, sub = av
        r = _seq(sub, flags)
        if hi == sre_parse.MAXREPEAT:
            if lo == 0:
                return z3.Star(r)
            if lo == 1:
                return z3.Plus(r)
            return z3.Concat(*([r] * lo + [z3.Star(r)]))
        return z3.Loop(r, lo, hi)
    if op == 'BRANCH':
        alts = [_seq(a, flags) for a in av[1]]
        return alts[0] if len(alts) == 1 else z3.Union(*alts)
    if op == 'SUBPATTERN':
        return _seq(av[3], flags)
    raise RegexOutside(op)


def to_z3(pattern, flags=0):
    tree = sre_parse.parse(pattern, flags)
    return _seq(list(tree), flags | tree.state.flags)
