"""Token-level model of a SLY lexer class, built from the class itself on every run.

SLY's tokenize(): skip characters of `ignore`, then `_master_re.match(text, index)` where the master regex is the alternation of the
rules in `_rules` order - Python alternation semantics: the FIRST alternative that matches wins (not the longest). `first_token(w)`
is therefore min{ j : rule j matches at position 0 of w }. The model is one tagged determinisation of the union of the rules'
prefix-match automata (\\b exact, see fst.resolve_boundaries); it is compared with the real `_master_re` on sample words every run.

Also here: `guard_dfa`, the regular language of a boolean guard over one string variable (regex fullmatch/match, membership of
.upper()/.lower() in a set of words, str predicates), used to read the printer's quoting decision off its AST."""
import ast
import itertools
import re
from collections import deque

from vlib.fst import Dfa, Nfa, FstError, regex_nfa, regex_dfa, resolve_boundaries, check_minterms

LETTERS = [chr(c) for c in range(ord('a'), ord('z') + 1)] + [chr(c) for c in range(ord('A'), ord('Z') + 1)]
OTHERS = list("01_$`'\"\\@. \n\t\r-*%:;/()?{}[]+~!=<>|,#&^é٣")
ALPHABET = LETTERS + OTHERS


def rules_of(Lexer):
    out = []
    for name, value in Lexer._rules:
        pat = value if isinstance(value, str) else getattr(value, 'pattern', None)
        if pat is not None:
            out.append((name, pat))
    return out


class TokenModel:
    """states of the tagged DFA; per state: first = index of the first rule that matches a prefix (or None), full = set of rule indices that match
    the whole string read so far. Rule index -1 is the pseudo rule '<ignore>' (string starts with an ignored character)."""

    def __init__(self, Lexer, alphabet=None):
        self.A = A = list(alphabet or ALPHABET)
        self.Lexer = Lexer
        self.rules = rules_of(Lexer)
        self.names = [n for n, _ in self.rules]
        flags = Lexer.reflags
        big = Nfa()
        big.start = big.new()
        prefix_tag = {}
        full_tag = {}

        def embed(n, j):
            off = big.n
            for _ in range(n.n):
                big.new()
            for p, qs in n.eps.items():
                for q in qs:
                    big.add(p + off, None, q + off)
            for (p, ch), qs in n.trans.items():
                for q in qs:
                    big.add(p + off, ch, q + off)
            big.add(big.start, None, n.start + off)
            for f in n.finals:
                prefix_tag[f + off] = j
            for f in n.full_finals:
                full_tag[f + off] = j
        # pseudo rule: ignored first character
        ign = Nfa()
        ign.start = ign.new()
        s1 = ign.new()
        for ch in A:
            if ch in Lexer.ignore:
                ign.add(ign.start, ch, s1)
            ign.add(s1, ch, s1)
        ign.finals = {s1}
        ign.full_finals = set()
        embed(ign, -1)
        self.unmodelled = []
        for j, (name, pat) in enumerate(self.rules):
            try:
                n = resolve_boundaries(regex_nfa(pat, flags, A), A, prefix=True, flags=flags)
            except FstError as e:
                self.unmodelled.append((name, str(e)))
                continue
            embed(n, j)
        # tagged subset construction
        start = big.closure({big.start})
        index = {start: 0}
        self.trans = [{}]
        self.first = []
        self.full = []
        work = deque([start])
        order = [start]
        while work:
            S = work.popleft()
            i = index[S]
            for ch in A:
                T = set()
                for p in S:
                    T |= big.trans.get((p, ch), set())
                if not T:
                    continue
                T = big.closure(T)
                if T not in index:
                    index[T] = len(self.trans)
                    self.trans.append({})
                    work.append(T)
                    order.append(T)
                self.trans[i][ch] = index[T]
        for S in order:
            pj = [prefix_tag[p] for p in S if p in prefix_tag]
            self.first.append(min(pj) if pj else None)
            self.full.append(frozenset(full_tag[p] for p in S if p in full_tag))

    def run(self, w):
        q = 0
        for ch in w:
            q = self.trans[q].get(ch)
            if q is None:
                return None
        return q

    def classify(self, w):
        """(name of the first matching rule | '<ignore>' | '<none>', whole string matched by that rule)"""
        q = self.run(w)
        if q is None or self.first[q] is None:
            return '<none>', False
        j = self.first[q]
        if j == -1:
            return '<ignore>', False
        return self.names[j], j in self.full[q]

    def real(self, w):
        L = self.Lexer
        if w and w[0] in L.ignore:
            return '<ignore>', False
        m = L._master_re.match(w)
        if not m:
            return '<none>', False
        g = m.lastgroup
        name = g if g in self.names else 'ignore_' + g
        return name, m.end() == len(w)

    def validate(self, words):
        """disagreements between the model and the real master regex. `whole` is compared only in one direction: the model says 'some match of the
        rule spans the string', the real regex reports its preferred match - a shorter preferred match is reported separately by the caller."""
        bad = []
        for w in words:
            if not w or any(c not in self.A for c in w):
                continue
            m, r = self.classify(w), self.real(w)
            if m[0] != r[0] or (r[1] and not m[1]):
                bad.append((w, m, r))
        return bad

    def region_report(self, B):
        """for the regular language B (Dfa over self.A): {class: shortest witness} where class is
        (rule name, 'whole'|'prefix-only') for every way a word of B is tokenised first."""
        seen = {(B.start, 0): None}
        work = deque([(B.start, 0)])
        out = {}
        while work:
            b, s = work.popleft()
            if b in B.finals and (b, s) != (B.start, 0):
                j = self.first[s]
                if j is None:
                    key = ('<none>', 'prefix-only')
                elif j == -1:
                    key = ('<ignore>', 'prefix-only')
                else:
                    key = (self.names[j], 'whole' if j in self.full[s] else 'prefix-only')
                if key not in out:
                    w = []
                    k = (b, s)
                    while seen[k] is not None:
                        k, ch = seen[k]
                        w.append(ch)
                    out[key] = ''.join(reversed(w))
            for ch, b2 in B.trans[b].items():
                s2 = self.trans[s].get(ch)
                if s2 is None:
                    # no rule can match any more: every extension is '<none>' unless a prefix already matched (then first stays) - dead model state
                    s2 = self._dead(s)
                k2 = (b2, s2)
                if k2 not in seen:
                    seen[k2] = ((b, s), ch)
                    work.append(k2)
        return out

    def _dead(self, s):
        # a state with no outgoing transition for ch: prefix-matched rules have sinks, so a missing transition means no rule had matched
        if not hasattr(self, '_dead_state'):
            self._dead_state = len(self.trans)
            self.trans.append({})
            self.first.append(None)
            self.full.append(frozenset())
        return self._dead_state


_MODELS = {}


def token_model(Lexer):
    if Lexer not in _MODELS:
        _MODELS[Lexer] = TokenModel(Lexer)
    return _MODELS[Lexer]


# ------------------------------------------------------------------ guards
STR_PREDICATES = {
    # name -> (first-char predicate, other-char predicate, accepts empty); validated against CPython on every use
    'isidentifier': (lambda c: c.isidentifier(), lambda c: ('a' + c).isidentifier(), False),
    'isalnum': (str.isalnum, str.isalnum, False),
    'isalpha': (str.isalpha, str.isalpha, False),
    'isdigit': (str.isdigit, str.isdigit, False),
    'isdecimal': (str.isdecimal, str.isdecimal, False),
    'isnumeric': (str.isnumeric, str.isnumeric, False),
    'isascii': (str.isascii, str.isascii, True),
}


def _words(A, words, fold):
    """Dfa of the strings s with fold(s) in words (fold None: s in words), by a trie"""
    trans = [{}]
    finals = set()
    for wd in words:
        if fold is not None and getattr(wd, fold)() != wd:
            continue
        states = {0}
        ok = True
        for c in wd:
            cs = [x for x in A if (getattr(x, fold)() if fold else x) == c]
            if not cs:
                ok = False
                break
            nxt = set()
            for st in states:
                # all folded variants lead to the same trie node (keyed by the folded char)
                key = ('#', c)
                t = trans[st].get(key)
                if t is None:
                    t = len(trans)
                    trans.append({})
                    trans[st][key] = t
                    for x in cs:
                        trans[st][x] = t
                nxt.add(t)
            states = nxt
        if ok:
            finals |= states
    clean = [{k: v for k, v in t.items() if not isinstance(k, tuple)} for t in trans]
    return Dfa(A, clean, 0, finals)


def guard_dfa(test, var, resolve, A):
    """Dfa over A of the strings for which the boolean expression `test` over the string variable `var` is true.
    resolve(ast node) -> runtime object. Raises FstError on any shape outside the fragment."""
    def is_var(n):
        return isinstance(n, ast.Name) and n.id == var
    if isinstance(test, ast.BoolOp):
        ds = [guard_dfa(v, var, resolve, A) for v in test.values]
        r = ds[0]
        for x in ds[1:]:
            r = r.union(x) if isinstance(test.op, ast.Or) else r.intersect(x)
        return r
    if isinstance(test, ast.UnaryOp) and isinstance(test.op, ast.Not):
        return guard_dfa(test.operand, var, resolve, A).complement()
    if isinstance(test, ast.Call) and isinstance(test.func, ast.Attribute):
        f = test.func
        if f.attr in ('fullmatch', 'match') and len(test.args) == 1 and is_var(test.args[0]) and not test.keywords:
            rx = resolve(f.value)
            if not isinstance(rx, re.Pattern):
                raise FstError(f'{ast.unparse(f.value)} is not a compiled pattern')
            return regex_dfa(rx.pattern, rx.flags & ~re.UNICODE, A, prefix=(f.attr == 'match'))
        if f.attr in ('fullmatch', 'match') and len(test.args) == 2 and is_var(test.args[1]) and isinstance(f.value, ast.Name) and f.value.id == 're' \
                and isinstance(test.args[0], ast.Constant) and isinstance(test.args[0].value, str) and not test.keywords:
            return regex_dfa(test.args[0].value, 0, A, prefix=(f.attr == 'match'))
        if is_var(f.value) and f.attr in STR_PREDICATES and not test.args:
            first, other, empty = STR_PREDICATES[f.attr]
            F = Dfa.chars(A, [c for c in A if first(c)])
            starO = Dfa(A, [{c: 0 for c in A if other(c)}], 0, {0})
            R = F.concat(starO)
            if empty:
                R = R.union(Dfa.literal(A, ''))
            meth = getattr(str, f.attr)
            probe = [c for c in ['a', 'A', 'Z', '0', '_', '$', ' ', '-', 'é', '٣', '`'] if c in A]
            for k in range(0, 4):
                for tup in itertools.product(probe, repeat=k):
                    w = ''.join(tup)
                    if R.accepts(w) != bool(meth(w)):
                        raise FstError(f'str.{f.attr} model disagrees with CPython on {w!r}')
            return R
        raise FstError(f'call outside the guard fragment: {ast.unparse(test)[:60]}')
    if isinstance(test, ast.Compare) and len(test.ops) == 1 and isinstance(test.ops[0], (ast.In, ast.NotIn)):
        left = test.left
        fold = None
        if isinstance(left, ast.Call) and isinstance(left.func, ast.Attribute) and is_var(left.func.value) and left.func.attr in ('upper', 'lower') and not left.args:
            fold = left.func.attr
        elif not is_var(left):
            raise FstError(f'membership test on {ast.unparse(left)[:40]}')
        coll = resolve(test.comparators[0])
        if not isinstance(coll, (set, frozenset, list, tuple, dict)) or not all(isinstance(x, str) for x in coll):
            raise FstError('membership in something that is not a collection of strings')
        R = _words(A, sorted(coll), fold)
        return R.complement() if isinstance(test.ops[0], ast.NotIn) else R
    raise FstError(f'expression outside the guard fragment: {ast.unparse(test)[:60]}')


# ------------------------------------------------------------------ guards by symbolic execution (robust to refactoring of the printer)
def symbolic_quoting(modname, qual, make_receiver, A, quote='`'):
    """Runs the real printer `qual` (a method printing a list of string parts) on ONE symbolic part and classifies every path by its output:
    'bare' (the part itself), 'quoted' (quote + part + quote) or 'other'. Facts the printer tests about the part (regex matches, membership of the
    part / its upper- or lower-cased form in a set of words, str predicates) are opaque atoms; a path is the conjunction of atoms / negated atoms.
    Returns {'bare': Dfa, 'quoted': Dfa, 'other': Dfa} over the alphabet A. Raises FstError when a path depends on anything else."""
    import z3
    from vlib import pysym
    from vlib.pysym.values import mk_str, SymVal
    ex = pysym.Executor()
    ex.atoms = {}
    part = mk_str('part')
    paths = []

    def make_args(ex_):
        return make_receiver(ex_, part)

    def post(ex_, o):
        if o.kind != 'return':
            paths.append(('raise:' + getattr(o.value, '__name__', str(o.value)), list(o.pc)))
            return None
        v = o.value
        vt = v.t if isinstance(v, SymVal) else (z3.StringVal(v) if isinstance(v, str) else None)
        kind = 'other'
        if vt is not None:
            if ex_.valid(vt == part.t, pc=o.pc)[0]:
                kind = 'bare'
            elif ex_.valid(vt == z3.Concat(z3.StringVal(quote), part.t, z3.StringVal(quote)), pc=o.pc)[0]:
                kind = 'quoted'
        paths.append((kind, list(o.pc)))
        return None
    v = pysym.verify(modname, qual, make_args, post, ex=ex)
    if v.status != 'proved' and str(v.status).lower() != 'proved':
        raise FstError(f'printer outside the engine\'s reach: {v.detail}')
    atom_by_id = {b.get_id(): (desc, arg) for (desc, arg, b) in ex.atoms.values()}

    def atom_dfa(desc, arg):
        base, fold = arg.t, None
        if base.decl().name().startswith('str.upper') or base.decl().name().startswith('str.lower'):
            fold = 'upper' if 'upper' in base.decl().name() else 'lower'
            base = base.arg(0)
        if not base.eq(part.t):
            raise FstError(f'fact about {arg.t} (not the part itself)')
        if desc[0] == 'regex':
            if fold:
                raise FstError('regex on a case-folded part')
            return regex_dfa(desc[1], desc[2] & ~re.UNICODE, A, prefix=(desc[3] == 'match'))
        if desc[0] == 'member':
            return _words(A, sorted(desc[1]), fold)
        if desc[0] == 'strpred':
            if fold:
                raise FstError('str predicate on a case-folded part')
            t = ast.parse(f'part.{desc[1]}()', mode='eval').body
            return guard_dfa(t, 'part', None, A)
        raise FstError(f'atom {desc}')
    cache = {}
    out = {'bare': Dfa(A, [{}], 0, set()), 'quoted': Dfa(A, [{}], 0, set()), 'other': Dfa(A, [{}], 0, set())}
    def to_dfa(e):
        if e.get_id() in atom_by_id:
            if e.get_id() not in cache:
                cache[e.get_id()] = atom_dfa(*atom_by_id[e.get_id()])
            return cache[e.get_id()]
        if z3.is_not(e):
            return to_dfa(e.arg(0)).complement()
        if z3.is_and(e) or z3.is_or(e):
            ds = [to_dfa(c) for c in e.children()]
            r = ds[0]
            for d in ds[1:]:
                r = r.intersect(d) if z3.is_and(e) else r.union(d)
            return r
        if z3.is_true(e):
            return Dfa.star_any(A)
        if z3.is_false(e):
            return Dfa(A, [{}], 0, set())
        if 'str.upper' in e.sexpr() or 'str.lower' in e.sexpr():
            return Dfa.star_any(A)          # axioms about the uninterpreted case-folding functions
        raise FstError(f'path condition outside the atom fragment: {e}')
    for kind, pc in paths:
        lang = Dfa.star_any(A)
        for e in pc:
            lang = lang.intersect(to_dfa(z3.simplify(e)))
        k2 = kind if kind in out else 'other'
        out[k2] = out[k2].union(lang)
    return out


# ------------------------------------------------------------------ ignored input (comments, newlines)
def ignore_rule_problems(Lexer):
    """what the lexer throws away must be what SQL calls a comment or white space: a `--` comment ends before the line break, a `/* */` comment is the
    shortest text from `/*` to `*/`, every other ignore rule (and the `ignore` characters) is white space only. Returns [(rule, witness, text)];
    decided on the regular languages of the real patterns (all strings)."""
    A = ALPHABET
    anyd = Dfa.star_any(A)
    out = []
    ws = [c for c in A if c in ' \t\r\n']
    for c in Lexer.ignore:
        if c not in ' \t\r\n\f\v':
            out.append(('ignore', c, f'the lexer skips the character {c!r} wherever it stands'))
    for name, pat in rules_of(Lexer):
        if not name.startswith('ignore_'):
            continue
        try:
            L = regex_dfa(pat, Lexer.reflags, A)
        except FstError as e:
            out.append((name, None, f'pattern outside the regex fragment: {e}'))
            continue
        starts_dash = L.intersect(Dfa.literal(A, '--').concat(anyd)).witness() is not None
        starts_block = L.intersect(Dfa.literal(A, '/*').concat(anyd)).witness() is not None
        if starts_dash or (L.intersect(Dfa.literal(A, '#').concat(anyd)).witness() is not None):
            w = L.intersect(anyd.concat(Dfa.literal(A, '\n')).concat(anyd)).witness()
            if w is not None:
                out.append((name, w, f'the line-comment rule can swallow a line break and what follows it: it matches {w!r}'))
        elif starts_block:
            w = L.minus(Dfa.literal(A, '/*').concat(anyd).concat(Dfa.literal(A, '*/'))).witness()
            if w is not None:
                out.append((name, w, f'the block-comment rule matches {w!r}, which is not /* ... */'))
            inner = Dfa.literal(A, '/*').concat(anyd).concat(Dfa.literal(A, '*/')).concat(Dfa.plus_any(A)).concat(Dfa.literal(A, '*/'))
            # a match that contains an earlier `*/` is longer than the comment (non-greedy patterns never produce it; the language still contains it, so
            # the preferred match is what counts): checked on the real regex for a crafted text
            import re as _re
            m = _re.compile(pat, Lexer.reflags).match('/* a */ b */')
            if m and m.group(0) != '/* a */':
                out.append((name, '/* a */ b */', f'the block-comment rule runs past the first */: it takes {m.group(0)!r}'))
        else:
            w = L.minus(Dfa(A, [{c: 0 for c in ws}], 0, {0})).witness()
            if w is not None:
                out.append((name, w, f'the ignore rule {name} matches {w!r}, which is neither a comment nor white space'))
    return out
