"""Dependency of planner properties on the contract of QueryPlanner.get_integration_select_step (C08.cte.lookup.*): the helper that builds every
per-table fetch of the join planners (plain joins, model joins, the partition / window / range selects of the time-series planner).

A property whose argument starts from "the rows of table T are fetched from the integration T resolves to" (C10 routing, C14 model input, C15 window
and selected rows) re-evaluates these obligations; an unlisted failure is reported under the dependent property too."""
from vlib.core import PROVED, UNDECIDED


def obligations(rep, tier, prop):
    from contracts import C08
    sub = type(rep)('C08', tier, C08.LEVEL)
    C08.cte_lookup_obligations(sub)
    n_ok = sum(1 for o in sub.obs if o.status == PROVED)
    bad = sub.unlisted_failures()
    und = [o for o in sub.obs if o.status == UNDECIDED and not getattr(o, 'soft', False)]
    for x in bad:
        if hasattr(x, 'status'):
            rep.failed(f'{prop}.fetch.' + x.id.split('.', 1)[1], x.engine, x.detail, function=x.function, clause=x.clause, replay=x.replay)
    for o in und:
        rep.undecided(f'{prop}.fetch.' + o.id.split('.', 1)[1], o.engine, o.detail, function=o.function)
    if not bad and not und:
        rep.proved(f'{prop}.fetch', 'pysym', f'{n_ok} obligations of get_integration_select_step hold', function='mindsdb_sql.planner.query_planner:QueryPlanner.get_integration_select_step',
                   clause='a table is replaced by the result of a CTE only if it is referenced in the default namespace by exactly the CTE name; otherwise one fetch from the integration it resolves to')
