"""E5 frames: syntactic write-effect census over the whole repository (ast of every module under $REPO_ROOT).

Answers "which code constructs X", "which code stores attribute a", "which code mutates the container held in
attribute a".  The census is exhaustive over the source text (every module is parsed on every run); it over-approximates
by attribute *name* (no alias analysis), which is the safe direction for 'only these sites write it' obligations."""
import ast
from . import repo

MUTATORS = {'append', 'extend', 'pop', 'insert', 'remove', 'clear', 'sort', 'reverse', 'update', 'add', 'discard', 'setdefault', 'popitem', '__setitem__'}


class Site:
    def __init__(self, module, func, lineno, text):
        self.module, self.func, self.lineno, self.text = module, func, lineno, text

    def __repr__(self):
        return f'{self.module}:{self.func}:{self.lineno} `{self.text}`'

    @property
    def where(self):
        return f'{self.module}:{self.func}'


def _functions(modname):
    """yields (qualified function name, node) for every def, plus ('<module>', module)"""
    tree = repo.module_ast(modname)

    def rec(node, prefix):
        for ch in ast.iter_child_nodes(node):
            if isinstance(ch, (ast.FunctionDef, ast.AsyncFunctionDef)):
                q = f'{prefix}{ch.name}'
                yield q, ch
                yield from rec(ch, q + '.')
            elif isinstance(ch, ast.ClassDef):
                yield from rec(ch, f'{prefix}{ch.name}.')
            else:
                yield from rec(ch, prefix)
    yield '<module>', tree
    yield from rec(tree, '')


def _own_nodes(fn):
    """nodes of a function body excluding nested defs (those are reported under their own name)"""
    stack = list(ast.iter_child_nodes(fn))
    while stack:
        n = stack.pop()
        yield n
        if isinstance(n, (ast.FunctionDef, ast.AsyncFunctionDef, ast.ClassDef)) and n is not fn:
            if isinstance(fn, ast.Module):
                if isinstance(n, ast.ClassDef):
                    # class bodies at module level: statements directly in the class body belong to <module>
                    for ch in n.body:
                        if not isinstance(ch, (ast.FunctionDef, ast.AsyncFunctionDef)):
                            stack.append(ch)
            continue
        stack.extend(ast.iter_child_nodes(n))


def scan(pred, modules=None):
    out = []
    for m in modules or repo.all_repo_modules():
        try:
            src = repo.module_src(m)
        except (FileNotFoundError, SyntaxError):
            continue
        for q, fn in _functions(m):
            for n in _own_nodes(fn):
                if pred(n):
                    out.append(Site(m, q, getattr(n, 'lineno', 0), (ast.get_source_segment(src, n) or '')[:120].replace('\n', ' ')))
    return out


def calls_of(name, modules=None):
    """call sites whose callee is the bare name or an attribute with that name"""
    def pred(n):
        if isinstance(n, ast.Call):
            f = n.func
            return (isinstance(f, ast.Name) and f.id == name) or (isinstance(f, ast.Attribute) and f.attr == name)
        return False
    return scan(pred, modules)


_PARENTS = {}


def _module_level_value(name, modules):
    for m in modules or repo.all_repo_modules():
        try:
            for st in repo.module_ast(m).body:
                if isinstance(st, ast.Assign) and len(st.targets) == 1 and isinstance(st.targets[0], ast.Name) and st.targets[0].id == name:
                    return st.value
        except (FileNotFoundError, SyntaxError):
            continue
    return None


def _strings_of_selected_table(fn, it, modules, depth=0):
    if depth > 3:
        return None
    if isinstance(it, ast.Name):
        v = _module_level_value(it.id, modules)
        if v is not None:
            if any(isinstance(x, (ast.Call, ast.Lambda)) for x in ast.walk(v) if not (isinstance(x, ast.Call) and isinstance(x.func, ast.Name) and x.func.id in ('tuple', 'list', 'dict', 'frozenset'))):
                return None
            return {c.value for c in ast.walk(v) if isinstance(c, ast.Constant) and isinstance(c.value, str) and c.value.isidentifier()}
        local = [st for st in ast.walk(fn) if isinstance(st, ast.Assign) and len(st.targets) == 1 and isinstance(st.targets[0], ast.Name) and st.targets[0].id == it.id]
        if len(local) != 1:
            return None
        return _strings_of_selected_table(fn, local[0].value, modules, depth + 1)
    if isinstance(it, ast.Call) and isinstance(it.func, ast.Name) and it.func.id in ('next', 'list', 'tuple', 'sorted', 'reversed', 'iter') and it.args:
        return _strings_of_selected_table(fn, it.args[0], modules, depth + 1)
    if isinstance(it, (ast.GeneratorExp, ast.ListComp)) and len(it.generators) == 1:
        return _strings_of_selected_table(fn, it.generators[0].iter, modules, depth + 1)
    if isinstance(it, ast.Subscript):
        return _strings_of_selected_table(fn, it.value, modules, depth + 1)
    if isinstance(it, ast.Call) and isinstance(it.func, ast.Attribute) and it.func.attr in ('get', 'items', 'values', 'keys'):
        return _strings_of_selected_table(fn, it.func.value, modules, depth + 1)
    return None


def _dynamic_attr_names(call, modules):
    """setattr(obj, NAME, v) where NAME is a parameter of the enclosing function: the set of string literals passed for that parameter at every call site
    of the function (by bare name or attribute name) in the scanned modules, or None when some call site passes something else (then: any attribute)"""
    a = call.args[1]
    if not isinstance(a, ast.Name):
        return None
    key = tuple(modules or ())
    if key not in _PARENTS:
        idx = {}
        for m in modules or repo.all_repo_modules():
            try:
                tree = repo.module_ast(m)
            except (FileNotFoundError, SyntaxError):
                continue
            for fn in ast.walk(tree):
                if isinstance(fn, (ast.FunctionDef, ast.AsyncFunctionDef)):
                    for n in ast.walk(fn):
                        idx.setdefault(id(n), fn)          # innermost wins below
            for fn in ast.walk(tree):
                if isinstance(fn, (ast.FunctionDef, ast.AsyncFunctionDef)):
                    for n in _own_nodes(fn):
                        idx[id(n)] = fn
        _PARENTS[key] = idx
    fn = _PARENTS[key].get(id(call))
    if fn is None:
        return None
    params = [p.arg for p in fn.args.posonlyargs + fn.args.args]
    if a.id not in params:
        # a loop variable over a constant table: `for clause in ('where', 'having')`, `for attr, is_list in _CLAUSES` (module-level literal)
        consts = {}
        for m in modules or repo.all_repo_modules():
            try:
                for st in repo.module_ast(m).body:
                    if isinstance(st, ast.Assign) and len(st.targets) == 1 and isinstance(st.targets[0], ast.Name):
                        try:
                            consts.setdefault(st.targets[0].id, ast.literal_eval(st.value))
                        except Exception:
                            pass
            except (FileNotFoundError, SyntaxError):
                continue
        names = set()
        found_loop = False
        for lp in ast.walk(fn):
            if not isinstance(lp, (ast.For, ast.comprehension)):
                continue
            tgt, it = lp.target, lp.iter
            pos = None
            if isinstance(tgt, ast.Name) and tgt.id == a.id:
                pos = -1
            elif isinstance(tgt, (ast.Tuple, ast.List)):
                for i_, x in enumerate(tgt.elts):
                    if isinstance(x, ast.Name) and x.id == a.id:
                        pos = i_
            if pos is None:
                continue
            found_loop = True
            try:
                items = ast.literal_eval(it)
            except Exception:
                items = consts.get(it.id) if isinstance(it, ast.Name) else None
            if not isinstance(items, (tuple, list)):
                # a local bound to a selection from a module-level table that is not a pure literal (it mentions classes):
                #   children = next(attrs for cls, attrs in _TABLE if isinstance(node, cls));  for attr, flag in children: setattr(node, attr, ...)
                # over-approximation: the name is one of the identifier-like string constants written inside that table
                more = _strings_of_selected_table(fn, it, modules)
                if more is None:
                    return None
                names |= more
                continue
            for el in items:
                v = el if pos == -1 else (el[pos] if isinstance(el, (tuple, list)) and len(el) > pos else None)
                if not isinstance(v, str):
                    return None
                names.add(v)
        return names if found_loop else None
    pos = params.index(a.id)
    names = set()
    found = False
    for m in modules or repo.all_repo_modules():
        try:
            tree = repo.module_ast(m)
        except (FileNotFoundError, SyntaxError):
            continue
        for c in ast.walk(tree):
            if isinstance(c, ast.Call) and ((isinstance(c.func, ast.Name) and c.func.id == fn.name) or (isinstance(c.func, ast.Attribute) and c.func.attr == fn.name)):
                found = True
                # a method is called without its self argument
                off = 1 if (isinstance(c.func, ast.Attribute) and params and params[0] in ('self', 'cls')) else 0
                arg = None
                if pos - off < len(c.args) and pos - off >= 0:
                    arg = c.args[pos - off]
                for kw in c.keywords:
                    if kw.arg == a.id:
                        arg = kw.value
                if isinstance(arg, ast.Constant) and isinstance(arg.value, str):
                    names.add(arg.value)
                else:
                    return None
    return names if found else None


def attr_stores(attr, modules=None):
    def pred(n):
        targets = []
        if isinstance(n, ast.Assign):
            targets = n.targets
        elif isinstance(n, (ast.AugAssign, ast.AnnAssign)):
            targets = [n.target]
        elif isinstance(n, ast.Call) and isinstance(n.func, ast.Name) and n.func.id == 'setattr' and len(n.args) >= 2:
            a = n.args[1]
            if isinstance(a, ast.Constant):
                return a.value == attr
            names = _dynamic_attr_names(n, modules)
            return names is None or attr in names
        for t in targets:
            for x in ast.walk(t):
                if isinstance(x, ast.Attribute) and x.attr == attr and isinstance(x.ctx, ast.Store):
                    return True
        return False
    return scan(pred, modules)


def attr_mutations(attr, modules=None):
    """in-place mutations of the container held in `.attr`: X.attr.append(..), X.attr[i] = .., del X.attr[..], X.attr += .."""
    def holds(e):
        return isinstance(e, ast.Attribute) and e.attr == attr

    def pred(n):
        if isinstance(n, ast.Call) and isinstance(n.func, ast.Attribute) and n.func.attr in MUTATORS and holds(n.func.value):
            return True
        if isinstance(n, ast.Assign):
            return any(isinstance(t, ast.Subscript) and holds(t.value) for t in n.targets)
        if isinstance(n, ast.AugAssign):
            return holds(n.target) or (isinstance(n.target, ast.Subscript) and holds(n.target.value))
        if isinstance(n, ast.Delete):
            return any(isinstance(t, ast.Subscript) and holds(t.value) for t in n.targets)
        return False
    return scan(pred, modules)


def keyword_uses(kw, modules=None):
    def pred(n):
        return isinstance(n, ast.Call) and any(k.arg == kw for k in n.keywords)
    return scan(pred, modules)


def class_defines(method_names, modules=None):
    """(module, class, method) for every class defining one of the given methods"""
    out = []
    for m in modules or repo.all_repo_modules():
        try:
            tree = repo.module_ast(m)
        except (FileNotFoundError, SyntaxError):
            continue
        for n in ast.walk(tree):
            if isinstance(n, ast.ClassDef):
                for b in n.body:
                    if isinstance(b, ast.FunctionDef) and b.name in method_names:
                        out.append((m, n.name, b.name))
    return out


def self_state_writes(module, classname, allowed=('__init__',)):
    """sites in methods of `classname` (other than the allowed ones) that store to an attribute of self or mutate a container held in one:
    self.X = .., self.X[..] = .., self.X.append(..), del self.X[..], setattr(self, ..). An object without such sites behaves the same on every call."""
    tree = repo.module_ast(module)
    src = repo.module_src(module)
    out = []
    for cls in ast.walk(tree):
        if not (isinstance(cls, ast.ClassDef) and cls.name == classname):
            continue
        for fn in cls.body:
            if not isinstance(fn, (ast.FunctionDef, ast.AsyncFunctionDef)) or fn.name in allowed:
                continue
            selfname = fn.args.args[0].arg if fn.args.args else 'self'

            def on_self(e):
                while isinstance(e, (ast.Attribute, ast.Subscript)):
                    if isinstance(e, ast.Attribute) and isinstance(e.value, ast.Name) and e.value.id == selfname:
                        return True
                    e = e.value
                return False
            for n in ast.walk(fn):
                hit = False
                if isinstance(n, (ast.Assign, ast.Delete)):
                    ts = []
                    stack = list(n.targets)
                    while stack:
                        x = stack.pop()
                        if isinstance(x, (ast.Tuple, ast.List)):
                            stack += list(x.elts)
                        else:
                            ts.append(x)
                    hit = any(isinstance(t, (ast.Attribute, ast.Subscript)) and on_self(t) for t in ts)
                elif isinstance(n, (ast.AugAssign, ast.AnnAssign)):
                    hit = isinstance(n.target, (ast.Attribute, ast.Subscript)) and on_self(n.target)
                elif isinstance(n, ast.Call) and isinstance(n.func, ast.Attribute) and n.func.attr in MUTATORS and on_self(n.func.value):
                    hit = True
                elif isinstance(n, ast.Call) and isinstance(n.func, ast.Name) and n.func.id in ('setattr', 'delattr') and n.args and isinstance(n.args[0], ast.Name) and n.args[0].id == selfname:
                    hit = True
                if hit:
                    out.append(Site(module, f'{classname}.{fn.name}', n.lineno, (ast.get_source_segment(src, n) or '')[:100].replace('\n', ' ')))
    return out
