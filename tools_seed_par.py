#!/usr/bin/env python3
"""Maintainer tool: run each kept seed's own property check (quick) against a scratch worktree with the seed applied (does not touch /repo):
   tools_seed_par.py <wid> <nworkers> [id-or-suffix ...]      e.g.  tools_seed_par.py 0 4 -m -n"""
import json, os, subprocess, sys, glob, tempfile, shutil
wid, nw = int(sys.argv[1]), int(sys.argv[2])
VERIF='/verif'
wt=f'/tmp/seedwt_{wid}'
subprocess.run(['git','-C','/repo','worktree','remove','--force',wt],capture_output=True)
subprocess.run(['git','-C','/repo','worktree','add','--detach',wt,'HEAD'],capture_output=True,check=True)
seeds=sorted(d for d in glob.glob(VERIF+'/seeded/C*') if os.path.isdir(d))
suffix=sys.argv[3:]
if suffix:
    seeds=[d for d in seeds if any(os.path.basename(d).endswith(x) or os.path.basename(d)==x for x in suffix)]
try:
    for i,d in enumerate(seeds):
        if i%nw!=wid: continue
        sid=os.path.basename(d)
        m=json.load(open(d+'/meta.json'))
        subprocess.run(['git','-C',wt,'checkout','--','.'],capture_output=True)
        subprocess.run(['git','-C',wt,'clean','-fdq'],capture_output=True)
        r=subprocess.run(['git','-C',wt,'apply',d+'/patch.diff'],capture_output=True,text=True)
        if r.returncode!=0:
            print(sid,'DOES-NOT-APPLY',flush=True); continue
        out=tempfile.mkdtemp(prefix='seedout_',dir='/tmp')
        p=m['property']
        e=dict(os.environ,REPO_ROOT=wt,VERIF_OUT=out)
        pr=subprocess.run([VERIF+'/bin/vcheck',p,'--tier','quick'],env=e,capture_output=True,text=True)
        o=pr.stdout+pr.stderr
        viol=[l for l in o.splitlines() if l.startswith('VIOLATION')]
        und=[l for l in o.splitlines() if l.startswith('UNDECIDED')]
        res={p:{'rc':pr.returncode,'violations':[v.split('replay=')[-1].split('/')[-1] for v in viol][:12],'n_violations':len(viol),'undecided':len(und)}}
        m.setdefault('checks',{})['quick']=res
        m.setdefault('caught',{})['quick']= pr.returncode==1
        m['checked_on']=subprocess.run(['git','-C','/repo','rev-parse','--short','HEAD'],capture_output=True,text=True).stdout.strip()
        json.dump(m,open(d+'/meta.json','w'),indent=1,ensure_ascii=False)
        shutil.rmtree(out,ignore_errors=True)
        print(sid,'rc=',pr.returncode,'viol=',len(viol),'und=',len(und),flush=True)
finally:
    subprocess.run(['git','-C','/repo','worktree','remove','--force',wt],capture_output=True)
print('WORKER-DONE',wid)
