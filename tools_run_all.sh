#!/bin/sh
# runs every registered check (quick by default) in parallel and prints one summary line per property
TIER="${1:-quick}"
cd "$(dirname "$0")"
for p in $(python3 -c "import json; print(' '.join(c['property_id'] for c in json.load(open('MANIFEST.json'))['checks']))"); do
  ( bin/vcheck $p --tier $TIER > /tmp/vrun_$p.log 2>&1; echo "$p rc=$? $(tail -1 /tmp/vrun_$p.log)" ) &
done
wait
