#!/usr/bin/env python3
"""Maintainer tool: re-base a kept seed whose patch no longer applies to /repo HEAD (context moved by a fix: commit): `patch -p1 --fuzz=3` in a scratch
worktree, regenerate patch.diff with git diff, then tools_seed_eval.py confirm decides whether it is still a valid seed.   usage: tools_seed_rebase.py <seed-id>..."""
import os, subprocess, sys, tempfile, shutil
HERE = os.path.dirname(os.path.abspath(__file__))
for sid in sys.argv[1:]:
    d = os.path.join(HERE, 'seeded', sid)
    wt = tempfile.mkdtemp(prefix='seedrb_', dir='/tmp'); os.rmdir(wt)
    subprocess.run(['git', '-C', '/repo', 'worktree', 'add', '--detach', wt, 'HEAD'], capture_output=True, check=True)
    try:
        r = subprocess.run(['patch', '-p1', '--fuzz=3', '--no-backup-if-mismatch', '-i', os.path.join(d, 'patch.diff')], cwd=wt, capture_output=True, text=True)
        rej = [f for dp, _, fs in os.walk(wt) for f in fs if f.endswith(('.rej', '.orig'))]
        if r.returncode != 0 or rej:
            print(sid, 'REBASE-FAILED', (r.stdout + r.stderr).strip().splitlines()[-2:])
            continue
        diff = subprocess.run(['git', '-C', wt, 'diff'], capture_output=True, text=True).stdout
        if not diff.strip():
            print(sid, 'EMPTY-DIFF')
            continue
        shutil.copy(os.path.join(d, 'patch.diff'), os.path.join(d, 'patch.diff.before-rebase'))
        open(os.path.join(d, 'patch.diff'), 'w').write(diff)
        print(sid, 'rebased')
    finally:
        subprocess.run(['git', '-C', '/repo', 'worktree', 'remove', '--force', wt], capture_output=True)
