#!/usr/bin/env python3
"""Maintainer tool (never run by checks): after triage, records the CURRENT violations of a property (from replays/<prop>/*.json)
as known findings.  usage: tools_record_findings.py Cnn [id-substring ...]"""
import json, glob, sys, os
HERE = os.path.dirname(os.path.abspath(__file__))
prop = sys.argv[1]
only = sys.argv[2:]
kf = json.load(open(os.path.join(HERE, 'known_findings.json')))
keep = [f for f in kf['findings'] if f['property'] != prop or (only and not any(s in f['id'] for s in only))]
new = []
for f in sorted(glob.glob(os.path.join(HERE, 'replays', prop, '*.json'))):
    d = json.load(open(f))
    if only and not any(s in d['id'] for s in only):
        continue
    r = d.get('replay') or {}
    if d['kind'] == 'ob':
        if not r.get('input') or not r.get('fires'):
            print('SKIP (no replayed witness):', d['id'])
            continue
        wit, dialect, obs = r['input'], r.get('dialect', 'mindsdb'), r.get('observed')
        what = f"{str(d['detail'])[:200]}; replay `{str(wit)[:120]}` -> {str(obs)[:140]}"
    else:
        wit, dialect, obs = d['input'], 'mindsdb', d.get('observed')
        what = f"`{str(wit)[:140]}` -> {str(obs)[:200]}"
    new.append({'property': prop, 'id': d['id'], 'witness': wit, 'dialect': dialect, 'what': ' '.join(what.split())})
kf['findings'] = keep + new
json.dump(kf, open(os.path.join(HERE, 'known_findings.json'), 'w'), indent=1, ensure_ascii=False)
print(f'{prop}: recorded {len(new)} findings')
