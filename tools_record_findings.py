#!/usr/bin/env python3
"""Maintainer tool (never run by checks): after triage, records the CURRENT violations of a property (from replays/<prop>/*.json)
as known findings.  usage: tools_record_findings.py Cnn [id-substring ...]"""
import json, glob, sys, os
HERE = os.path.dirname(os.path.abspath(__file__))
prop = sys.argv[1]
only = [a for a in sys.argv[2:] if not a.startswith('--')]
kf = json.load(open(os.path.join(HERE, 'known_findings.json')))
reset = '--reset' in sys.argv
keep = [f for f in kf['findings'] if not reset or f['property'] != prop or (only and not any(s in f['id'] for s in only))]
new = []
for f in sorted(glob.glob(os.path.join(HERE, 'replays', prop, '*.json'))):
    d = json.load(open(f))
    if only and not any(s in d['id'] for s in only):
        continue
    r = d.get('replay') or {}
    if d['kind'] == 'ob':
        if not r.get('input') or not r.get('fires'):
            if '--allow-no-witness' not in sys.argv:
                print('SKIP (no replayed witness):', d['id'])
                continue
            # identified by call site / obligation only (no data-level witness exists on the reference engine)
            new.append({'property': prop, 'id': d['id'], 'witness': None, 'dialect': 'mindsdb', 'what': ' '.join(f"(identified by obligation; no failing input found) {str(d['detail'])[:220]}".split())})
            continue
        wit, dialect, obs = r['input'], r.get('dialect', 'mindsdb'), r.get('observed')
        what = f"{str(d['detail'])[:200]}; replay `{str(wit)[:120]}` -> {str(obs)[:140]}"
    else:
        wit, dialect, obs = d['input'], 'mindsdb', d.get('observed')
        what = f"`{str(wit)[:140]}` -> {str(obs)[:200]}"
    new.append({'property': prop, 'id': d['id'], 'witness': wit, 'dialect': dialect, 'what': ' '.join(what.split())})
ids = {(n['property'], n['id']) for n in new}
kf['findings'] = [f for f in keep if (f['property'], f['id']) not in ids] + new
json.dump(kf, open(os.path.join(HERE, 'known_findings.json'), 'w'), indent=1, ensure_ascii=False)
print(f'{prop}: recorded {len(new)} findings')
